//! Intermediate representation mirrored by `GcArena.Brand` (lean/GcArena/Model/Brand.lean) and
//! its two printers (Lean term, JSON).

use std::collections::HashMap;

#[derive(Clone, Debug, PartialEq, Eq)]
pub enum Lt {
    Static,
    Erased,
    Named(String),
}

#[derive(Clone, Debug, PartialEq, Eq)]
pub enum Ty {
    Prim(String),
    Param(String),
    Ref(Lt, Box<Ty>),
    RefMut(Lt, Box<Ty>),
    RawConst(Box<Ty>),
    RawMut(Box<Ty>),
    Std(&'static str, Vec<Ty>),
    Tuple(Vec<Ty>),
    Slice(Box<Ty>),
    Proj { self_: Box<Ty>, trait_: String, lts: Vec<Lt>, tys: Vec<Ty>, assoc: String },
    FnPtr { bound: Vec<String>, args: Vec<Ty>, ret: Box<Ty> },
    Adt { name: String, lts: Vec<Lt>, tys: Vec<Ty> },
    Unclassified(String),
}

pub fn lean_str(s: &str) -> String {
    let mut o = String::from("\"");
    for c in s.chars() {
        match c {
            '"' => o.push_str("\\\""),
            '\\' => o.push_str("\\\\"),
            '\n' => o.push_str("\\n"),
            '\t' => o.push_str("\\t"),
            c => o.push(c),
        }
    }
    o.push('"');
    o
}

pub fn json_str(s: &str) -> String {
    let mut o = String::from("\"");
    for c in s.chars() {
        match c {
            '"' => o.push_str("\\\""),
            '\\' => o.push_str("\\\\"),
            '\n' => o.push_str("\\n"),
            '\t' => o.push_str("\\t"),
            c if (c as u32) < 0x20 => o.push_str(&format!("\\u{:04x}", c as u32)),
            c => o.push(c),
        }
    }
    o.push('"');
    o
}

pub fn lean_list<T>(xs: &[T], f: impl Fn(&T) -> String) -> String {
    format!("[{}]", xs.iter().map(f).collect::<Vec<_>>().join(", "))
}

pub fn json_list<T>(xs: &[T], f: impl Fn(&T) -> String) -> String {
    format!("[{}]", xs.iter().map(f).collect::<Vec<_>>().join(","))
}

pub fn lean_bool(b: bool) -> &'static str {
    if b { "true" } else { "false" }
}

impl Lt {
    pub fn lean(&self) -> String {
        match self {
            Lt::Static => ".static".into(),
            Lt::Erased => ".erased".into(),
            Lt::Named(n) => format!(".named {}", lean_str(n)),
        }
    }
    pub fn json(&self) -> String {
        match self {
            Lt::Static => "\"'static\"".into(),
            Lt::Erased => "\"'_\"".into(),
            Lt::Named(n) => json_str(&format!("'{}", n)),
        }
    }
    pub fn rust(&self) -> String {
        match self {
            Lt::Static => "'static".into(),
            Lt::Erased => "'_".into(),
            Lt::Named(n) => format!("'{}", n),
        }
    }
}

impl Ty {
    pub fn unit() -> Ty {
        Ty::Tuple(vec![])
    }

    pub fn lean(&self) -> String {
        let p = |t: &Ty| format!("({})", t.lean());
        match self {
            Ty::Prim(n) => format!(".prim {}", lean_str(n)),
            Ty::Param(n) => format!(".param {}", lean_str(n)),
            Ty::Ref(l, t) => format!(".ref ({}) {}", l.lean(), p(t)),
            Ty::RefMut(l, t) => format!(".refMut ({}) {}", l.lean(), p(t)),
            Ty::RawConst(t) => format!(".rawConst {}", p(t)),
            Ty::RawMut(t) => format!(".rawMut {}", p(t)),
            Ty::Std(c, ts) => format!(".std .{} {}", c, lean_list(ts, |t| t.lean())),
            Ty::Tuple(ts) => format!(".tuple {}", lean_list(ts, |t| t.lean())),
            Ty::Slice(t) => format!(".slice {}", p(t)),
            Ty::Proj { self_, trait_, lts, tys, assoc } => format!(
                ".proj {} {} {} {} {}",
                p(self_),
                lean_str(trait_),
                lean_list(lts, |l| l.lean()),
                lean_list(tys, |t| t.lean()),
                lean_str(assoc)
            ),
            Ty::FnPtr { bound, args, ret } => format!(
                ".fnPtr {} {} {}",
                lean_list(bound, |b| lean_str(b)),
                lean_list(args, |t| t.lean()),
                p(ret)
            ),
            Ty::Adt { name, lts, tys } => format!(
                ".adt {} {} {}",
                lean_str(name),
                lean_list(lts, |l| l.lean()),
                lean_list(tys, |t| t.lean())
            ),
            Ty::Unclassified(w) => format!(".unclassified {}", lean_str(w)),
        }
    }

    pub fn json(&self) -> String {
        match self {
            Ty::Prim(n) => format!("{{\"k\":\"prim\",\"name\":{}}}", json_str(n)),
            Ty::Param(n) => format!("{{\"k\":\"param\",\"name\":{}}}", json_str(n)),
            Ty::Ref(l, t) => format!("{{\"k\":\"ref\",\"lt\":{},\"t\":{}}}", l.json(), t.json()),
            Ty::RefMut(l, t) => format!("{{\"k\":\"refMut\",\"lt\":{},\"t\":{}}}", l.json(), t.json()),
            Ty::RawConst(t) => format!("{{\"k\":\"rawConst\",\"t\":{}}}", t.json()),
            Ty::RawMut(t) => format!("{{\"k\":\"rawMut\",\"t\":{}}}", t.json()),
            Ty::Std(c, ts) => format!("{{\"k\":\"std\",\"c\":{},\"args\":{}}}", json_str(c), json_list(ts, |t| t.json())),
            Ty::Tuple(ts) => format!("{{\"k\":\"tuple\",\"ts\":{}}}", json_list(ts, |t| t.json())),
            Ty::Slice(t) => format!("{{\"k\":\"slice\",\"t\":{}}}", t.json()),
            Ty::Proj { self_, trait_, lts, tys, assoc } => format!(
                "{{\"k\":\"proj\",\"self\":{},\"trait\":{},\"lts\":{},\"tys\":{},\"assoc\":{}}}",
                self_.json(),
                json_str(trait_),
                json_list(lts, |l| l.json()),
                json_list(tys, |t| t.json()),
                json_str(assoc)
            ),
            Ty::FnPtr { bound, args, ret } => format!(
                "{{\"k\":\"fnPtr\",\"bound\":{},\"args\":{},\"ret\":{}}}",
                json_list(bound, |b| json_str(b)),
                json_list(args, |t| t.json()),
                ret.json()
            ),
            Ty::Adt { name, lts, tys } => format!(
                "{{\"k\":\"adt\",\"name\":{},\"lts\":{},\"tys\":{}}}",
                json_str(name),
                json_list(lts, |l| l.json()),
                json_list(tys, |t| t.json())
            ),
            Ty::Unclassified(w) => format!("{{\"k\":\"unclassified\",\"what\":{}}}", json_str(w)),
        }
    }

    /// Rust-like rendering (for comments and messages only).
    pub fn rust(&self) -> String {
        let args = |lts: &Vec<Lt>, tys: &Vec<Ty>| {
            let mut v: Vec<String> = lts.iter().map(|l| l.rust()).collect();
            v.extend(tys.iter().map(|t| t.rust()));
            if v.is_empty() { String::new() } else { format!("<{}>", v.join(", ")) }
        };
        match self {
            Ty::Prim(n) | Ty::Param(n) => n.clone(),
            Ty::Ref(l, t) => format!("&{} {}", l.rust(), t.rust()),
            Ty::RefMut(l, t) => format!("&{} mut {}", l.rust(), t.rust()),
            Ty::RawConst(t) => format!("*const {}", t.rust()),
            Ty::RawMut(t) => format!("*mut {}", t.rust()),
            Ty::Std(c, ts) => {
                let n = match *c {
                    "phantomData" => "PhantomData",
                    "cell" => "Cell",
                    "unsafeCell" => "UnsafeCell",
                    "refCell" => "RefCell",
                    "rc" => "Rc",
                    "rcWeak" => "rc::Weak",
                    "arc" => "Arc",
                    "arcWeak" => "sync::Weak",
                    "box" => "Box",
                    "vec" => "Vec",
                    "option" => "Option",
                    "result" => "Result",
                    "nonNull" => "NonNull",
                    "manuallyDrop" => "ManuallyDrop",
                    "maybeUninit" => "MaybeUninit",
                    o => o,
                };
                format!("{}{}", n, args(&vec![], ts))
            }
            Ty::Tuple(ts) => format!("({})", ts.iter().map(|t| t.rust()).collect::<Vec<_>>().join(", ")),
            Ty::Slice(t) => format!("[{}]", t.rust()),
            Ty::Proj { self_, trait_, lts, tys, assoc } => {
                format!("<{} as {}{}>::{}", self_.rust(), trait_, args(lts, tys), assoc)
            }
            Ty::FnPtr { bound, args: a, ret } => format!(
                "{}fn({}) -> {}",
                if bound.is_empty() { String::new() } else { format!("for<{}> ", bound.iter().map(|b| format!("'{}", b)).collect::<Vec<_>>().join(", ")) },
                a.iter().map(|t| t.rust()).collect::<Vec<_>>().join(", "),
                ret.rust()
            ),
            Ty::Adt { name, lts, tys } => format!("{}{}", name, args(lts, tys)),
            Ty::Unclassified(w) => format!("?<{}>", w),
        }
    }

    pub fn subst(&self, lm: &HashMap<String, Lt>, tm: &HashMap<String, Ty>) -> Ty {
        let sl = |l: &Lt| match l {
            Lt::Named(n) => lm.get(n).cloned().unwrap_or_else(|| l.clone()),
            _ => l.clone(),
        };
        let sv = |ts: &Vec<Ty>| ts.iter().map(|t| t.subst(lm, tm)).collect::<Vec<_>>();
        match self {
            Ty::Prim(_) | Ty::Unclassified(_) => self.clone(),
            Ty::Param(n) => tm.get(n).cloned().unwrap_or_else(|| self.clone()),
            Ty::Ref(l, t) => Ty::Ref(sl(l), Box::new(t.subst(lm, tm))),
            Ty::RefMut(l, t) => Ty::RefMut(sl(l), Box::new(t.subst(lm, tm))),
            Ty::RawConst(t) => Ty::RawConst(Box::new(t.subst(lm, tm))),
            Ty::RawMut(t) => Ty::RawMut(Box::new(t.subst(lm, tm))),
            Ty::Std(c, ts) => Ty::Std(c, sv(ts)),
            Ty::Tuple(ts) => Ty::Tuple(sv(ts)),
            Ty::Slice(t) => Ty::Slice(Box::new(t.subst(lm, tm))),
            Ty::Proj { self_, trait_, lts, tys, assoc } => Ty::Proj {
                self_: Box::new(self_.subst(lm, tm)),
                trait_: trait_.clone(),
                lts: lts.iter().map(sl).collect(),
                tys: sv(tys),
                assoc: assoc.clone(),
            },
            Ty::FnPtr { bound, args, ret } => {
                // binder lifetimes shadow
                let mut lm2 = lm.clone();
                for b in bound {
                    lm2.remove(b);
                }
                Ty::FnPtr {
                    bound: bound.clone(),
                    args: args.iter().map(|t| t.subst(&lm2, tm)).collect(),
                    ret: Box::new(ret.subst(&lm2, tm)),
                }
            }
            Ty::Adt { name, lts, tys } => Ty::Adt { name: name.clone(), lts: lts.iter().map(sl).collect(), tys: sv(tys) },
        }
    }

    pub fn mentions_adt(&self, names: &[&str]) -> bool {
        match self {
            Ty::Prim(_) | Ty::Param(_) | Ty::Unclassified(_) => false,
            Ty::Ref(_, t) | Ty::RefMut(_, t) | Ty::RawConst(t) | Ty::RawMut(t) | Ty::Slice(t) => t.mentions_adt(names),
            Ty::Std(_, ts) | Ty::Tuple(ts) => ts.iter().any(|t| t.mentions_adt(names)),
            Ty::Proj { self_, tys, .. } => self_.mentions_adt(names) || tys.iter().any(|t| t.mentions_adt(names)),
            Ty::FnPtr { args, ret, .. } => args.iter().any(|t| t.mentions_adt(names)) || ret.mentions_adt(names),
            Ty::Adt { name, tys, .. } => names.contains(&name.as_str()) || tys.iter().any(|t| t.mentions_adt(names)),
        }
    }
}
