//! Target types (the *original types* of the values), their destructor log, and the per-target
//! glue (`Tgt`) the generic conversion machinery in `shape.rs` needs.

use crate::shape::{Handle, Sh};
use gc_arena::gc::{Fat, GcKind};
use gc_arena::meta::{PtrMeta, UnitPtrMeta};
use gc_arena::slice::{SlicePtrMeta, SliceWithHeaderPtrMeta, StrPtrMeta};
use gc_arena::zst_cache::ZstCache;
use gc_arena::{
    Collect, DynamicRoot, DynamicRootSet, Gc, GcFat, GcSliceBuilder, GcSliceWithHeaderBuilder, GcStr, SliceWithHeader, GcWeak, Mutation, Rootable, arena::Root,
    collect::Trace, unsize,
};
use std::cell::RefCell;

pub const POISON: u64 = 0xDEAD_DEAD_DEAD_DEAD;

thread_local! {
    /// (type tag, instance id, element index) of every destructor run, in order.
    pub static DROPS: RefCell<Vec<(&'static str, u32, u32)>> = const { RefCell::new(Vec::new()) };
}

pub fn log_drop(tag: &'static str, id: u32, idx: u32) {
    DROPS.with(|d| d.borrow_mut().push((tag, id, idx)));
}

pub fn reset_drops() {
    DROPS.with(|d| d.borrow_mut().clear());
}

pub fn drops() -> Vec<(&'static str, u32, u32)> {
    DROPS.with(|d| d.borrow().clone())
}

pub fn count_tag(tag: &str) -> usize {
    DROPS.with(|d| d.borrow().iter().filter(|e| e.0 == tag).count())
}

fn mix(mut z: u64) -> u64 {
    z = z.wrapping_add(0x9E37_79B9_7F4A_7C15);
    z = (z ^ (z >> 30)).wrapping_mul(0xBF58_476D_1CE4_E5B9);
    z = (z ^ (z >> 27)).wrapping_mul(0x94D0_49BB_1331_11EB);
    z ^ (z >> 31)
}

/// Per-instance payload.
pub fn val_of(id: u32) -> u64 {
    mix(id as u64) | 1
}

pub fn leaf_val(id: u32) -> u64 {
    mix(0x1000_0000_0000 + id as u64) | 1
}

pub fn str_of(id: u32, n: usize) -> String {
    let mut s = String::with_capacity(n);
    let mut z = id as u64;
    while s.len() < n {
        z = mix(z);
        s.push((b'a' + (z % 26) as u8) as char);
    }
    s
}

/// What a case expects to read back.
#[derive(Clone, Copy, Debug)]
pub struct Exp {
    pub id: u32,
    pub n: usize,
}

// ---------------------------------------------------------------------------------------------
// value types
// ---------------------------------------------------------------------------------------------

pub struct Leaf {
    pub id: u32,
    pub val: u64,
}

impl Drop for Leaf {
    fn drop(&mut self) {
        log_drop("Leaf", self.id, 0);
        self.val = POISON;
    }
}

unsafe impl<'gc> Collect<'gc> for Leaf {
    const NEEDS_TRACE: bool = false;
}

pub trait Tr<'gc> {
    fn id(&self) -> u32;
    fn val(&self) -> u64;
    fn child_val(&self) -> Option<u64>;
}

pub struct Payload<'gc> {
    pub id: u32,
    pub val: u64,
    pub child: Gc<'gc, Leaf>,
}

impl<'gc> Drop for Payload<'gc> {
    fn drop(&mut self) {
        log_drop("Payload", self.id, 0);
        self.val = POISON;
    }
}

unsafe impl<'gc> Collect<'gc> for Payload<'gc> {
    fn trace<C: Trace<'gc>>(&self, cc: &mut C) {
        cc.trace(&self.child);
    }
}

impl<'gc> Tr<'gc> for Payload<'gc> {
    fn id(&self) -> u32 {
        self.id
    }
    fn val(&self) -> u64 {
        self.val
    }
    fn child_val(&self) -> Option<u64> {
        Some(self.child.val)
    }
}

pub struct Elem<'gc> {
    pub id: u32,
    pub idx: u32,
    pub val: u64,
    pub child: Gc<'gc, Leaf>,
}

impl<'gc> Drop for Elem<'gc> {
    fn drop(&mut self) {
        log_drop("Elem", self.id, self.idx);
        self.val = POISON;
    }
}

unsafe impl<'gc> Collect<'gc> for Elem<'gc> {
    fn trace<C: Trace<'gc>>(&self, cc: &mut C) {
        cc.trace(&self.child);
    }
}

pub const ARRAY_N: usize = 4;
pub type Arr<'gc> = [Elem<'gc>; ARRAY_N];

fn mk_elem<'gc>(e: &Exp, i: usize, child: Gc<'gc, Leaf>) -> Elem<'gc> {
    Elem { id: e.id, idx: i as u32, val: val_of(e.id) ^ ((i as u64) << 32), child }
}

fn check_elems(v: &[Elem<'_>], e: &Exp) -> Result<(), String> {
    if v.len() != e.n {
        return Err(format!("slice length reads {} but the value was allocated with {} elements", v.len(), e.n));
    }
    for (i, x) in v.iter().enumerate() {
        if x.id != e.id || x.idx != i as u32 || x.val != val_of(e.id) ^ ((i as u64) << 32) {
            return Err(format!("element {i} reads (id {}, idx {}, val {:#x}), not the original value of instance {}", x.id, x.idx, x.val, e.id));
        }
        if x.child.val != leaf_val(e.id) || x.child.id != e.id {
            return Err(format!("child of element {i} reads {:#x}, not the original leaf value", x.child.val));
        }
    }
    Ok(())
}

macro_rules! zst_type {
    ($name:ident, $a:literal, $tag:literal) => {
        #[repr(align($a))]
        pub struct $name;
        impl Drop for $name {
            fn drop(&mut self) {
                log_drop($tag, 0, 0);
            }
        }
        unsafe impl<'gc> Collect<'gc> for $name {
            const NEEDS_TRACE: bool = false;
        }
        impl<'gc> Tr<'gc> for $name {
            fn id(&self) -> u32 {
                0
            }
            fn val(&self) -> u64 {
                $a
            }
            fn child_val(&self) -> Option<u64> {
                None
            }
        }
    };
}

zst_type!(Z1, 1, "Z1");
zst_type!(Z2, 2, "Z2");
zst_type!(Z4, 4, "Z4");
zst_type!(Z8, 8, "Z8");
zst_type!(Z16, 16, "Z16");
zst_type!(Z32, 32, "Z32");
zst_type!(Z64, 64, "Z64");
// the zero-sized type handed to `ZstCache::<16>::alloc` by the `zc:8:16` target
zst_type!(ZC8, 8, "ZC8");


macro_rules! zst_nodrop_type {
    ($name:ident, $a:literal) => {
        #[repr(align($a))]
        pub struct $name;
        unsafe impl<'gc> Collect<'gc> for $name {
            const NEEDS_TRACE: bool = false;
        }
        impl<'gc> Tr<'gc> for $name {
            fn id(&self) -> u32 {
                0
            }
            fn val(&self) -> u64 {
                $a
            }
            fn child_val(&self) -> Option<u64> {
                None
            }
        }
    };
}
// zero-sized types without a destructor (ZstCache aliasing grid)
zst_nodrop_type!(ZN2, 2);
zst_nodrop_type!(ZN8, 8);
zst_nodrop_type!(ZN16, 16);
pub type U2 = [(); 2];
pub type U3 = [(); 3];

/// A zero-sized value the aliasing grid can make, with its name in the case lines.
pub trait ZMake: Sized {
    const NAME: &'static str;
    fn make() -> Self;
}
macro_rules! zmake {
    ($($t:ty => $n:literal, $e:expr;)*) => {$(
        impl ZMake for $t {
            const NAME: &'static str = $n;
            fn make() -> Self {
                $e
            }
        }
    )*};
}
zmake! {
    Z1 => "z:1", Z1; Z4 => "z:4", Z4; Z8 => "z:8", Z8; Z64 => "z:64", Z64;
    ZN2 => "zn:2", ZN2; ZN8 => "zn:8", ZN8; ZN16 => "zn:16", ZN16;
    U2 => "u:2", [(); 2]; U3 => "u:3", [(); 3];
}

// ---------------------------------------------------------------------------------------------
// Rootable families for DynamicRootSet::stash
// ---------------------------------------------------------------------------------------------

pub struct DynTrFam;
impl<'a> Rootable<'a> for DynTrFam {
    type Root = dyn Tr<'a> + 'a;
}
pub struct ElemSliceFam;
impl<'a> Rootable<'a> for ElemSliceFam {
    type Root = [Elem<'a>];
}
pub struct PayloadFam;
impl<'a> Rootable<'a> for PayloadFam {
    type Root = Payload<'a>;
}
pub struct ArrFam;
impl<'a> Rootable<'a> for ArrFam {
    type Root = Arr<'a>;
}
pub struct StrFam;
impl<'a> Rootable<'a> for StrFam {
    type Root = str;
}
pub struct UnitFam;
impl<'a> Rootable<'a> for UnitFam {
    type Root = ();
}
pub struct NeverFam;
impl<'a> Rootable<'a> for NeverFam {
    type Root = NoUnsize;
}
/// `U` of the targets that cannot be unsized (never instantiated).
pub struct NoUnsize;

/// A `DynamicRoot<R>` kept outside the arena together with the way to look at what it fetches.
pub struct H<R: for<'a> Rootable<'a>> {
    pub root: DynamicRoot<R>,
    pub obs: for<'gc> fn(Gc<'gc, Root<'gc, R>>, &Exp) -> (usize, Result<(), String>),
}

impl<R: for<'a> Rootable<'a>> Handle for H<R> {
    fn observe<'gc>(&self, set: DynamicRootSet<'gc>, e: &Exp) -> (usize, Result<(), String>) {
        let g = set.fetch(&self.root);
        (self.obs)(g, e)
    }
}

fn stash_rt<'gc, R: for<'a> Rootable<'a>>(
    set: DynamicRootSet<'gc>,
    mc: &Mutation<'gc>,
    p: Gc<'gc, Root<'gc, R>>,
) -> Gc<'gc, Root<'gc, R>> {
    let h = set.stash::<R>(mc, p);
    let h2 = h.clone();
    drop(h);
    let q = set.fetch(&h2);
    drop(h2);
    q
}

pub fn stash_rt_unit<'gc>(set: DynamicRootSet<'gc>, mc: &Mutation<'gc>, p: Gc<'gc, ()>) -> Gc<'gc, ()> {
    stash_rt::<UnitFam>(set, mc, p)
}

fn obs_unit<'gc>(g: Gc<'gc, ()>, _e: &Exp) -> (usize, Result<(), String>) {
    (Gc::as_ptr(g) as usize, Ok(()))
}

pub fn stash_handle_unit<'gc>(set: DynamicRootSet<'gc>, mc: &Mutation<'gc>, p: Gc<'gc, ()>) -> Box<dyn Handle> {
    Box::new(H::<UnitFam> { root: set.stash::<UnitFam>(mc, p), obs: obs_unit })
}

// ---------------------------------------------------------------------------------------------
// per-target glue
// ---------------------------------------------------------------------------------------------

pub trait Tgt<'gc>: 'gc {
    type P: PtrMeta<Self, (), Thin = Self::Th> + 'static;
    type Th: 'gc;
    type U: ?Sized + 'gc;
    /// destructor-log tag of the original type (`""`: the type has no destructor to log)
    const TAG: &'static str;
    const PNAME: &'static str;
    fn has_child(e: &Exp) -> bool;
    /// number of original value tokens (struct: 1, element / byte: 1 each, zero-sized: 0)
    fn tokens(e: &Exp) -> usize;
    /// destructor-log entries with `TAG` one destruction of the value produces
    fn drops_per_value(e: &Exp) -> usize;

    fn alloc(mc: &Mutation<'gc>, e: &Exp, child: Gc<'gc, Leaf>) -> GcFat<'gc, Self, (), Self::P>;
    fn check(v: &Self, e: &Exp) -> Result<(), String>;
    fn check_u(v: &Self::U, e: &Exp) -> Result<(), String>;
    fn dlen(p: *const Self) -> String;
    fn dlen_u(p: *const Self::U) -> String;
    /// a default-kind pointer of the allocated type, as a shape
    fn from_def(p: Gc<'gc, Self>) -> Sh<'gc, Self>;
    fn from_def_w(p: GcWeak<'gc, Self>) -> Sh<'gc, Self>;
    /// `Gc::cast::<Self>` (sized targets only)
    fn cast_s<X: ?Sized + 'gc>(p: Gc<'gc, X>) -> Option<Sh<'gc, Self>>;
    fn cast_w<X: ?Sized + 'gc>(p: GcWeak<'gc, X>) -> Option<Sh<'gc, Self>>;
    /// `cast::<Self>` of a pointer of the allocation's own kind (sized targets only)
    fn cast_own(p: GcFat<'gc, Self, (), Self::P>) -> Option<Sh<'gc, Self>>;
    fn cast_own_w(p: GcWeak<'gc, Self, GcKind<Fat, (), Self::P>>) -> Option<Sh<'gc, Self>>;
    /// `unsize!` (sized targets only)
    fn unsize(sh: &Sh<'gc, Self>) -> Option<Sh<'gc, Self>>;
    /// stash + fetch of a pointer of the allocated type or of the unsized type
    fn stash_fetch(set: DynamicRootSet<'gc>, mc: &Mutation<'gc>, sh: &Sh<'gc, Self>) -> Option<Sh<'gc, Self>>;
    fn stash_handle(set: DynamicRootSet<'gc>, mc: &Mutation<'gc>, sh: &Sh<'gc, Self>) -> Option<Box<dyn Handle>>;
}

macro_rules! sized_tgt {
    (
        ty: $T:ty, fam: $F:ty, u: $U:ty, ufam: $UF:ty, tag: $tag:literal, child: $child:literal,
        drops: $drops:expr,
        alloc: |$mc:ident, $e:ident, $c:ident| $alloc:expr,
        check: |$v:ident, $e2:ident| $check:expr,
        check_u: |$vu:ident, $e3:ident| $check_u:expr,
        dlen_u: |$pu:ident| $dlen_u:expr,
        unsize_s: |$us:ident| $unsize_s:expr,
        unsize_w: |$uw:ident| $unsize_w:expr
    ) => {
        impl<'gc> Tgt<'gc> for $T {
            type P = UnitPtrMeta;
            type Th = $T;
            type U = $U;
            const TAG: &'static str = $tag;
            const PNAME: &'static str = "unit";
            fn has_child(_e: &Exp) -> bool {
                $child
            }
            fn tokens(e: &Exp) -> usize {
                // structs with a payload: 1; arrays: one per element; zero-sized types: 0
                if std::mem::size_of::<$T>() == 0 { 0 } else if $tag == "Elem" { e.n } else { 1 }
            }
            fn drops_per_value(e: &Exp) -> usize {
                let f: fn(&Exp) -> usize = $drops;
                f(e)
            }
            fn alloc($mc: &Mutation<'gc>, $e: &Exp, $c: Gc<'gc, Leaf>) -> GcFat<'gc, Self, (), UnitPtrMeta> {
                $alloc
            }
            fn check($v: &Self, $e2: &Exp) -> Result<(), String> {
                $check
            }
            fn check_u($vu: &Self::U, $e3: &Exp) -> Result<(), String> {
                $check_u
            }
            fn dlen(_p: *const Self) -> String {
                "-".to_string()
            }
            fn dlen_u($pu: *const Self::U) -> String {
                $dlen_u
            }
            fn from_def(p: Gc<'gc, Self>) -> Sh<'gc, Self> {
                Sh::Fat(p)
            }
            fn from_def_w(p: GcWeak<'gc, Self>) -> Sh<'gc, Self> {
                Sh::WFat(p)
            }
            fn cast_s<X: ?Sized + 'gc>(p: Gc<'gc, X>) -> Option<Sh<'gc, Self>> {
                // SAFETY: the allocation holds a value of type `Self`
                Some(Sh::Fat(unsafe { Gc::cast::<Self>(p) }))
            }
            fn cast_w<X: ?Sized + 'gc>(p: GcWeak<'gc, X>) -> Option<Sh<'gc, Self>> {
                // SAFETY: the allocation holds (or held) a value of type `Self`
                Some(Sh::WFat(unsafe { GcWeak::cast::<Self>(p) }))
            }
            fn cast_own(p: GcFat<'gc, Self, (), UnitPtrMeta>) -> Option<Sh<'gc, Self>> {
                Some(Sh::Fat(unsafe { Gc::cast::<Self>(p) }))
            }
            fn cast_own_w(p: GcWeak<'gc, Self, GcKind<Fat, (), UnitPtrMeta>>) -> Option<Sh<'gc, Self>> {
                Some(Sh::WFat(unsafe { GcWeak::cast::<Self>(p) }))
            }
            fn unsize(sh: &Sh<'gc, Self>) -> Option<Sh<'gc, Self>> {
                match *sh {
                    Sh::Fat($us) => Some(Sh::Uns($unsize_s)),
                    Sh::Thin($us) => Some(Sh::Uns($unsize_s)),
                    Sh::WFat($uw) => Some(Sh::WUns($unsize_w)),
                    Sh::WThin($uw) => Some(Sh::WUns($unsize_w)),
                    _ => None,
                }
            }
            fn stash_fetch(set: DynamicRootSet<'gc>, mc: &Mutation<'gc>, sh: &Sh<'gc, Self>) -> Option<Sh<'gc, Self>> {
                match *sh {
                    Sh::Fat(p) => Some(Sh::Fat(stash_rt::<$F>(set, mc, p))),
                    Sh::Uns(p) => Some(Sh::Uns(stash_rt::<$UF>(set, mc, p))),
                    _ => None,
                }
            }
            fn stash_handle(set: DynamicRootSet<'gc>, mc: &Mutation<'gc>, sh: &Sh<'gc, Self>) -> Option<Box<dyn Handle>> {
                fn obs_t<'gc>(g: Gc<'gc, $T>, e: &Exp) -> (usize, Result<(), String>) {
                    (Gc::as_ptr(g) as *const () as usize, <$T as Tgt<'gc>>::check(&*g, e))
                }
                fn obs_u<'gc>(g: Gc<'gc, $U>, e: &Exp) -> (usize, Result<(), String>) {
                    (Gc::as_ptr(g) as *const () as usize, <$T as Tgt<'gc>>::check_u(&*g, e))
                }
                match *sh {
                    Sh::Fat(p) => Some(Box::new(H::<$F> { root: set.stash::<$F>(mc, p), obs: obs_t })),
                    Sh::Uns(p) => Some(Box::new(H::<$UF> { root: set.stash::<$UF>(mc, p), obs: obs_u })),
                    _ => None,
                }
            }
        }
    };
}

fn check_dyn<'gc>(v: &(dyn Tr<'gc> + 'gc), e: &Exp, zst_align: Option<u64>) -> Result<(), String> {
    match zst_align {
        None => {
            if v.id() != e.id || v.val() != val_of(e.id) {
                return Err(format!("dyn Tr reads (id {}, val {:#x}), not the original value of instance {}", v.id(), v.val(), e.id));
            }
            if v.child_val() != Some(leaf_val(e.id)) {
                return Err(format!("child read through dyn Tr is {:?}, not the original leaf value", v.child_val()));
            }
        }
        Some(a) => {
            if v.val() != a || std::mem::size_of_val(v) != 0 || std::mem::align_of_val(v) as u64 != a {
                return Err(format!("dyn Tr vtable answers val {} size {} align {}, expected the zero-sized type of alignment {a}", v.val(), std::mem::size_of_val(v), std::mem::align_of_val(v)));
            }
        }
    }
    Ok(())
}

sized_tgt! {
    ty: Payload<'gc>, fam: PayloadFam, u: dyn Tr<'gc> + 'gc, ufam: DynTrFam, tag: "Payload", child: true,
    drops: |_| 1,
    alloc: |mc, e, c| Gc::new(mc, Payload { id: e.id, val: val_of(e.id), child: c }),
    check: |v, e| {
        if v.id != e.id || v.val != val_of(e.id) {
            return Err(format!("deref reads (id {}, val {:#x}), not the original value of instance {}", v.id, v.val, e.id));
        }
        if v.child.val != leaf_val(e.id) || v.child.id != e.id {
            return Err(format!("child reads (id {}, val {:#x}), not the original leaf", v.child.id, v.child.val));
        }
        Ok(())
    },
    check_u: |v, e| check_dyn(v, e, None),
    dlen_u: |_p| "vt".to_string(),
    unsize_s: |p| unsize!(p => dyn Tr<'gc> + 'gc),
    unsize_w: |w| unsize!(w => dyn Tr<'gc> + 'gc)
}

sized_tgt! {
    ty: Arr<'gc>, fam: ArrFam, u: [Elem<'gc>], ufam: ElemSliceFam, tag: "Elem", child: true,
    drops: |_| ARRAY_N,
    alloc: |mc, e, c| Gc::new(mc, std::array::from_fn::<_, ARRAY_N, _>(|i| mk_elem(e, i, c))),
    check: |v, e| check_elems(&v[..], e),
    check_u: |v, e| check_elems(v, e),
    dlen_u: |p| p.len().to_string(),
    unsize_s: |p| unsize!(p => [Elem<'gc>]),
    unsize_w: |w| unsize!(w => [Elem<'gc>])
}

macro_rules! zst_tgt_impl {
    ($T:ident, $F:ident, $a:literal, $tag:literal, $drops:literal, |$mc:ident| $alloc:expr) => {
        pub struct $F;
        impl<'a> Rootable<'a> for $F {
            type Root = $T;
        }
        sized_tgt! {
            ty: $T, fam: $F, u: dyn Tr<'gc> + 'gc, ufam: DynTrFam, tag: $tag, child: false,
            drops: |_| $drops,
            alloc: |$mc, _e, _c| $alloc,
            check: |v, _e| {
                if std::mem::size_of_val(v) != 0 || (v as *const $T as usize) % $a != 0 || Tr::val(v) != $a {
                    return Err(format!("zero-sized value at {:p} is not a {} (alignment {})", v as *const $T, $tag, $a));
                }
                Ok(())
            },
            check_u: |v, e| check_dyn(v, e, Some($a)),
            dlen_u: |_p| "vt".to_string(),
            unsize_s: |p| unsize!(p => dyn Tr<'gc> + 'gc),
            unsize_w: |w| unsize!(w => dyn Tr<'gc> + 'gc)
        }
    };
}

zst_tgt_impl!(Z1, Z1Fam, 1, "Z1", 1, |mc| Gc::new(mc, Z1));
zst_tgt_impl!(Z2, Z2Fam, 2, "Z2", 1, |mc| Gc::new(mc, Z2));
zst_tgt_impl!(Z4, Z4Fam, 4, "Z4", 1, |mc| Gc::new(mc, Z4));
zst_tgt_impl!(Z8, Z8Fam, 8, "Z8", 1, |mc| Gc::new(mc, Z8));
zst_tgt_impl!(Z16, Z16Fam, 16, "Z16", 1, |mc| Gc::new(mc, Z16));
zst_tgt_impl!(Z32, Z32Fam, 32, "Z32", 1, |mc| Gc::new(mc, Z32));
zst_tgt_impl!(Z64, Z64Fam, 64, "Z64", 1, |mc| Gc::new(mc, Z64));
// the cache itself is not kept: only the pointer it handed out holds its block
zst_tgt_impl!(ZC8, ZC8Fam, 8, "ZC8", 0, |mc| ZstCache::<16>::new(mc).alloc(mc, ZC8));


zst_tgt_impl!(ZN2, ZN2Fam, 2, "ZN2", 0, |mc| Gc::new(mc, ZN2));
zst_tgt_impl!(ZN8, ZN8Fam, 8, "ZN8", 0, |mc| Gc::new(mc, ZN8));
zst_tgt_impl!(ZN16, ZN16Fam, 16, "ZN16", 0, |mc| Gc::new(mc, ZN16));

pub struct UnitSliceFam;
impl<'a> Rootable<'a> for UnitSliceFam {
    type Root = [()];
}
macro_rules! unit_array_tgt {
    ($T:ty, $F:ident, $n:literal) => {
        pub struct $F;
        impl<'a> Rootable<'a> for $F {
            type Root = $T;
        }
        sized_tgt! {
            ty: $T, fam: $F, u: [()], ufam: UnitSliceFam, tag: "", child: false,
            drops: |_| 0,
            alloc: |mc, _e, _c| Gc::new(mc, [(); $n]),
            check: |v, _e| if v.len() == $n { Ok(()) } else { Err(format!("array length reads {}", v.len())) },
            check_u: |v, _e| if v.len() == $n { Ok(()) } else { Err(format!("[()] length reads {}, the array has {} elements", v.len(), $n)) },
            dlen_u: |p| p.len().to_string(),
            unsize_s: |p| unsize!(p => [()]),
            unsize_w: |w| unsize!(w => [()])
        }
    };
}
unit_array_tgt!(U2, U2Fam, 2);
unit_array_tgt!(U3, U3Fam, 3);

// ---- [Elem] allocated as a slice -------------------------------------------------------------

impl<'gc> Tgt<'gc> for [Elem<'gc>] {
    type P = SlicePtrMeta;
    type Th = ();
    type U = NoUnsize;
    const TAG: &'static str = "Elem";
    const PNAME: &'static str = "slice";
    fn has_child(e: &Exp) -> bool {
        e.n > 0
    }
    fn tokens(e: &Exp) -> usize {
        e.n
    }
    fn drops_per_value(e: &Exp) -> usize {
        e.n
    }
    fn alloc(mc: &Mutation<'gc>, e: &Exp, c: Gc<'gc, Leaf>) -> GcFat<'gc, Self, (), SlicePtrMeta> {
        GcSliceBuilder::new(e.n).write_slice_with(mc, |i| mk_elem(e, i, c))
    }
    fn check(v: &Self, e: &Exp) -> Result<(), String> {
        check_elems(v, e)
    }
    fn check_u(_v: &NoUnsize, _e: &Exp) -> Result<(), String> {
        Err("unreachable: a slice target has no unsized form".into())
    }
    fn dlen(p: *const Self) -> String {
        p.len().to_string()
    }
    fn dlen_u(_p: *const NoUnsize) -> String {
        "?".into()
    }
    fn from_def(p: Gc<'gc, Self>) -> Sh<'gc, Self> {
        Sh::Def(p)
    }
    fn from_def_w(p: GcWeak<'gc, Self>) -> Sh<'gc, Self> {
        Sh::WDef(p)
    }
    fn cast_s<X: ?Sized + 'gc>(_p: Gc<'gc, X>) -> Option<Sh<'gc, Self>> {
        None // `Gc::cast::<U>` needs `U: Sized`
    }
    fn cast_w<X: ?Sized + 'gc>(_p: GcWeak<'gc, X>) -> Option<Sh<'gc, Self>> {
        None
    }
    fn cast_own(_p: GcFat<'gc, Self, (), SlicePtrMeta>) -> Option<Sh<'gc, Self>> {
        None
    }
    fn cast_own_w(_p: GcWeak<'gc, Self, GcKind<Fat, (), SlicePtrMeta>>) -> Option<Sh<'gc, Self>> {
        None
    }
    fn unsize(_sh: &Sh<'gc, Self>) -> Option<Sh<'gc, Self>> {
        None // `unsize!` needs a sized source
    }
    fn stash_fetch(set: DynamicRootSet<'gc>, mc: &Mutation<'gc>, sh: &Sh<'gc, Self>) -> Option<Sh<'gc, Self>> {
        match *sh {
            Sh::Def(p) => Some(Sh::Def(stash_rt::<ElemSliceFam>(set, mc, p))),
            _ => None, // `GcSlice` is not a default-kind pointer: `stash` does not accept it
        }
    }
    fn stash_handle(set: DynamicRootSet<'gc>, mc: &Mutation<'gc>, sh: &Sh<'gc, Self>) -> Option<Box<dyn Handle>> {
        fn obs<'a>(g: Gc<'a, [Elem<'a>]>, e: &Exp) -> (usize, Result<(), String>) {
            (Gc::as_ptr(g) as *const () as usize, check_elems(&*g, e))
        }
        match *sh {
            Sh::Def(p) => Some(Box::new(H::<ElemSliceFam> { root: set.stash::<ElemSliceFam>(mc, p), obs })),
            _ => None,
        }
    }
}

// ---- SliceWithHeader<u64, Elem> (thin representation points at the header) ----------------------

pub type Swh<'gc> = SliceWithHeader<u64, Elem<'gc>>;
pub struct SwhFam;
impl<'a> Rootable<'a> for SwhFam {
    type Root = Swh<'a>;
}

fn hdr_of(id: u32) -> u64 {
    val_of(id) ^ 0x5555_0000_5555
}

fn check_swh(v: &Swh<'_>, e: &Exp) -> Result<(), String> {
    if v.header != hdr_of(e.id) {
        return Err(format!("header reads {:#x}, not the original header of instance {}", v.header, e.id));
    }
    check_elems(&v.slice, e)
}

impl<'gc> Tgt<'gc> for Swh<'gc> {
    type P = SliceWithHeaderPtrMeta;
    type Th = u64;
    type U = NoUnsize;
    const TAG: &'static str = "Elem";
    const PNAME: &'static str = "slice";
    fn has_child(e: &Exp) -> bool {
        e.n > 0
    }
    fn tokens(e: &Exp) -> usize {
        e.n + 1 // the header value and the elements
    }
    fn drops_per_value(e: &Exp) -> usize {
        e.n
    }
    fn alloc(mc: &Mutation<'gc>, e: &Exp, c: Gc<'gc, Leaf>) -> GcFat<'gc, Self, (), SliceWithHeaderPtrMeta> {
        GcSliceWithHeaderBuilder::<u64, Elem<'gc>>::new(e.n).write_header(hdr_of(e.id)).write_slice_with(mc, |i| mk_elem(e, i, c))
    }
    fn check(v: &Self, e: &Exp) -> Result<(), String> {
        check_swh(v, e)
    }
    fn check_u(_v: &NoUnsize, _e: &Exp) -> Result<(), String> {
        Err("unreachable: a slice-with-header target has no unsized form".into())
    }
    fn dlen(p: *const Self) -> String {
        (p as *const [u8]).len().to_string()
    }
    fn dlen_u(_p: *const NoUnsize) -> String {
        "?".into()
    }
    fn from_def(p: Gc<'gc, Self>) -> Sh<'gc, Self> {
        Sh::Def(p)
    }
    fn from_def_w(p: GcWeak<'gc, Self>) -> Sh<'gc, Self> {
        Sh::WDef(p)
    }
    fn cast_s<X: ?Sized + 'gc>(_p: Gc<'gc, X>) -> Option<Sh<'gc, Self>> {
        None
    }
    fn cast_w<X: ?Sized + 'gc>(_p: GcWeak<'gc, X>) -> Option<Sh<'gc, Self>> {
        None
    }
    fn cast_own(_p: GcFat<'gc, Self, (), SliceWithHeaderPtrMeta>) -> Option<Sh<'gc, Self>> {
        None
    }
    fn cast_own_w(_p: GcWeak<'gc, Self, GcKind<Fat, (), SliceWithHeaderPtrMeta>>) -> Option<Sh<'gc, Self>> {
        None
    }
    fn unsize(_sh: &Sh<'gc, Self>) -> Option<Sh<'gc, Self>> {
        None
    }
    fn stash_fetch(set: DynamicRootSet<'gc>, mc: &Mutation<'gc>, sh: &Sh<'gc, Self>) -> Option<Sh<'gc, Self>> {
        match *sh {
            Sh::Def(p) => Some(Sh::Def(stash_rt::<SwhFam>(set, mc, p))),
            _ => None,
        }
    }
    fn stash_handle(set: DynamicRootSet<'gc>, mc: &Mutation<'gc>, sh: &Sh<'gc, Self>) -> Option<Box<dyn Handle>> {
        fn obs<'a>(g: Gc<'a, Swh<'a>>, e: &Exp) -> (usize, Result<(), String>) {
            (Gc::as_ptr(g) as *const () as usize, check_swh(&*g, e))
        }
        match *sh {
            Sh::Def(p) => Some(Box::new(H::<SwhFam> { root: set.stash::<SwhFam>(mc, p), obs })),
            _ => None,
        }
    }
}

// ---- SliceWithHeader<Hdr32, Elem>: an over-aligned header (align 32), so that the allocation pads
// in front of the per-value metadata — the length must be read from directly in front of the value ---

#[repr(align(32))]
pub struct Hdr32(pub u64);
unsafe impl<'gc> Collect<'gc> for Hdr32 {
    const NEEDS_TRACE: bool = false;
}


pub type Swa<'gc> = SliceWithHeader<Hdr32, Elem<'gc>>;
pub struct SwaFam;
impl<'a> Rootable<'a> for SwaFam {
    type Root = Swa<'a>;
}

fn check_swa(v: &Swa<'_>, e: &Exp) -> Result<(), String> {
    if v.header.0 != hdr_of(e.id) {
        return Err(format!("header reads {:#x}, not the original header of instance {}", v.header.0, e.id));
    }
    check_elems(&v.slice, e)
}

impl<'gc> Tgt<'gc> for Swa<'gc> {
    type P = SliceWithHeaderPtrMeta;
    type Th = Hdr32;
    type U = NoUnsize;
    const TAG: &'static str = "Elem";
    const PNAME: &'static str = "slice";
    fn has_child(e: &Exp) -> bool {
        e.n > 0
    }
    fn tokens(e: &Exp) -> usize {
        e.n + 1 // the header value and the elements
    }
    fn drops_per_value(e: &Exp) -> usize {
        e.n
    }
    fn alloc(mc: &Mutation<'gc>, e: &Exp, c: Gc<'gc, Leaf>) -> GcFat<'gc, Self, (), SliceWithHeaderPtrMeta> {
        GcSliceWithHeaderBuilder::<Hdr32, Elem<'gc>>::new(e.n).write_header(Hdr32(hdr_of(e.id))).write_slice_with(mc, |i| mk_elem(e, i, c))
    }
    fn check(v: &Self, e: &Exp) -> Result<(), String> {
        check_swa(v, e)
    }
    fn check_u(_v: &NoUnsize, _e: &Exp) -> Result<(), String> {
        Err("unreachable: a slice-with-header target has no unsized form".into())
    }
    fn dlen(p: *const Self) -> String {
        (p as *const [u8]).len().to_string()
    }
    fn dlen_u(_p: *const NoUnsize) -> String {
        "?".into()
    }
    fn from_def(p: Gc<'gc, Self>) -> Sh<'gc, Self> {
        Sh::Def(p)
    }
    fn from_def_w(p: GcWeak<'gc, Self>) -> Sh<'gc, Self> {
        Sh::WDef(p)
    }
    fn cast_s<X: ?Sized + 'gc>(_p: Gc<'gc, X>) -> Option<Sh<'gc, Self>> {
        None
    }
    fn cast_w<X: ?Sized + 'gc>(_p: GcWeak<'gc, X>) -> Option<Sh<'gc, Self>> {
        None
    }
    fn cast_own(_p: GcFat<'gc, Self, (), SliceWithHeaderPtrMeta>) -> Option<Sh<'gc, Self>> {
        None
    }
    fn cast_own_w(_p: GcWeak<'gc, Self, GcKind<Fat, (), SliceWithHeaderPtrMeta>>) -> Option<Sh<'gc, Self>> {
        None
    }
    fn unsize(_sh: &Sh<'gc, Self>) -> Option<Sh<'gc, Self>> {
        None
    }
    fn stash_fetch(set: DynamicRootSet<'gc>, mc: &Mutation<'gc>, sh: &Sh<'gc, Self>) -> Option<Sh<'gc, Self>> {
        match *sh {
            Sh::Def(p) => Some(Sh::Def(stash_rt::<SwaFam>(set, mc, p))),
            _ => None,
        }
    }
    fn stash_handle(set: DynamicRootSet<'gc>, mc: &Mutation<'gc>, sh: &Sh<'gc, Self>) -> Option<Box<dyn Handle>> {
        fn obs<'a>(g: Gc<'a, Swa<'a>>, e: &Exp) -> (usize, Result<(), String>) {
            (Gc::as_ptr(g) as *const () as usize, check_swa(&*g, e))
        }
        match *sh {
            Sh::Def(p) => Some(Box::new(H::<SwaFam> { root: set.stash::<SwaFam>(mc, p), obs })),
            _ => None,
        }
    }
}

// ---- str ---------------------------------------------------------------------------------------

impl<'gc> Tgt<'gc> for str {
    type P = StrPtrMeta;
    type Th = ();
    type U = NoUnsize;
    const TAG: &'static str = "";
    const PNAME: &'static str = "str";
    fn has_child(_e: &Exp) -> bool {
        false
    }
    fn tokens(e: &Exp) -> usize {
        e.n
    }
    fn drops_per_value(_e: &Exp) -> usize {
        0
    }
    fn alloc(mc: &Mutation<'gc>, e: &Exp, _c: Gc<'gc, Leaf>) -> GcFat<'gc, Self, (), StrPtrMeta> {
        GcStr::new_str(mc, &str_of(e.id, e.n))
    }
    fn check(v: &Self, e: &Exp) -> Result<(), String> {
        if v.len() != e.n {
            return Err(format!("str length reads {} but the value was allocated with {} bytes", v.len(), e.n));
        }
        if v != str_of(e.id, e.n) {
            return Err(format!("str reads {:?}, not the original contents", v));
        }
        Ok(())
    }
    fn check_u(_v: &NoUnsize, _e: &Exp) -> Result<(), String> {
        Err("unreachable: a str target has no unsized form".into())
    }
    fn dlen(p: *const Self) -> String {
        (p as *const [u8]).len().to_string()
    }
    fn dlen_u(_p: *const NoUnsize) -> String {
        "?".into()
    }
    fn from_def(p: Gc<'gc, Self>) -> Sh<'gc, Self> {
        Sh::Def(p)
    }
    fn from_def_w(p: GcWeak<'gc, Self>) -> Sh<'gc, Self> {
        Sh::WDef(p)
    }
    fn cast_s<X: ?Sized + 'gc>(_p: Gc<'gc, X>) -> Option<Sh<'gc, Self>> {
        None
    }
    fn cast_w<X: ?Sized + 'gc>(_p: GcWeak<'gc, X>) -> Option<Sh<'gc, Self>> {
        None
    }
    fn cast_own(_p: GcFat<'gc, Self, (), StrPtrMeta>) -> Option<Sh<'gc, Self>> {
        None
    }
    fn cast_own_w(_p: GcWeak<'gc, Self, GcKind<Fat, (), StrPtrMeta>>) -> Option<Sh<'gc, Self>> {
        None
    }
    fn unsize(_sh: &Sh<'gc, Self>) -> Option<Sh<'gc, Self>> {
        None
    }
    fn stash_fetch(set: DynamicRootSet<'gc>, mc: &Mutation<'gc>, sh: &Sh<'gc, Self>) -> Option<Sh<'gc, Self>> {
        match *sh {
            Sh::Def(p) => Some(Sh::Def(stash_rt::<StrFam>(set, mc, p))),
            _ => None,
        }
    }
    fn stash_handle(set: DynamicRootSet<'gc>, mc: &Mutation<'gc>, sh: &Sh<'gc, Self>) -> Option<Box<dyn Handle>> {
        fn obs<'a>(g: Gc<'a, str>, e: &Exp) -> (usize, Result<(), String>) {
            (Gc::as_ptr(g) as *const () as usize, <str as Tgt<'a>>::check(&*g, e))
        }
        match *sh {
            Sh::Def(p) => Some(Box::new(H::<StrFam> { root: set.stash::<StrFam>(mc, p), obs })),
            _ => None,
        }
    }
}

#[allow(dead_code)]
type _Unused = NeverFam;
