//! One conversion case against the real collector: allocate, convert (in a chosen collector
//! phase), place, collect, observe, unroot, collect, observe.

use crate::shape::*;
use crate::track;
use crate::types::*;
use gc_arena::arena::CollectionPhase;
use gc_arena::metrics::Pacing;
use gc_arena::{Arena, Collect, DynamicRootSet, Gc, GcFat, GcWeak, Mutation, Rootable, collect::Trace};
use std::cell::Cell;
use std::marker::PhantomData;

/// A target family: the allocated type at every `'gc`.
pub trait Fam: 'static {
    type T<'gc>: ?Sized + Tgt<'gc>;
}

macro_rules! fam {
    ($name:ident, $t:ty) => {
        pub struct $name;
        impl Fam for $name {
            type T<'gc> = $t;
        }
    };
}
fam!(FPayload, Payload<'gc>);
fam!(FArr, Arr<'gc>);
fam!(FSlice, [Elem<'gc>]);
fam!(FStr, str);
fam!(FSwh, Swh<'gc>);
fam!(FSwa, Swa<'gc>);
fam!(FZ1, Z1);
fam!(FZ2, Z2);
fam!(FZ4, Z4);
fam!(FZ8, Z8);
fam!(FZ16, Z16);
fam!(FZ32, Z32);
fam!(FZ64, Z64);
fam!(FZC8, ZC8);

pub struct RootFam<F>(PhantomData<F>);
impl<'a, F: Fam> Rootable<'a> for RootFam<F> {
    type Root = CaseRoot<'a, F::T<'a>>;
}

#[derive(Collect)]
#[collect(no_drop)]
pub struct Noise<'gc> {
    next: Option<Gc<'gc, Noise<'gc>>>,
    pad: u64,
}

pub struct CaseRoot<'gc, T: ?Sized + Tgt<'gc>> {
    /// the converted pointer, in a slot of the converted type
    pub slot: Option<Sh<'gc, T>>,
    /// the original pointer
    pub orig: Option<GcFat<'gc, T, (), T::P>>,
    /// weak pointer to a value allocated in an earlier callback (age `ww`)
    pub pre_weak: Option<GcWeak<'gc, T, KFat<T::P>>>,
    pub set: DynamicRootSet<'gc>,
    pub noise: Vec<Gc<'gc, Noise<'gc>>>,
}

unsafe impl<'gc, T: ?Sized + Tgt<'gc>> Collect<'gc> for CaseRoot<'gc, T> {
    fn trace<C: Trace<'gc>>(&self, cc: &mut C) {
        cc.trace(&self.slot);
        cc.trace(&self.orig);
        cc.trace(&self.pre_weak);
        cc.trace(&self.set);
        cc.trace(&self.noise);
    }
}

impl<'gc, T: ?Sized + Tgt<'gc>> CaseRoot<'gc, T> {
    fn new(mc: &Mutation<'gc>) -> Self {
        let mut noise = Vec::new();
        let mut prev = None;
        for i in 0..6 {
            let g = Gc::new(mc, Noise { next: prev, pad: i });
            prev = Some(g);
            if i % 2 == 1 {
                noise.push(g);
            }
        }
        CaseRoot { slot: None, orig: None, pre_weak: None, set: DynamicRootSet::new(mc), noise }
    }
}

#[derive(Clone, Copy, Debug, PartialEq, Eq)]
pub enum Placement {
    Conv,
    Orig,
    Both,
    Dyn,
}
#[derive(Clone, Copy, Debug, PartialEq, Eq)]
pub enum Sched {
    Full,
    Inc,
}
#[derive(Clone, Copy, Debug, PartialEq, Eq)]
pub enum Phase {
    Sleep,
    Mark,
    Sweep,
    SweepMid,
}
#[derive(Clone, Copy, Debug, PartialEq, Eq)]
pub enum Age {
    Fresh,
    Black,
    Ww,
}

impl Placement {
    pub const ALL: [Placement; 4] = [Placement::Conv, Placement::Orig, Placement::Both, Placement::Dyn];
    pub fn name(self) -> &'static str {
        match self {
            Placement::Conv => "conv",
            Placement::Orig => "orig",
            Placement::Both => "both",
            Placement::Dyn => "dyn",
        }
    }
}
impl Sched {
    pub const ALL: [Sched; 2] = [Sched::Full, Sched::Inc];
    pub fn name(self) -> &'static str {
        match self {
            Sched::Full => "full",
            Sched::Inc => "inc",
        }
    }
}
impl Phase {
    pub const ALL: [Phase; 4] = [Phase::Sleep, Phase::Mark, Phase::Sweep, Phase::SweepMid];
    pub fn name(self) -> &'static str {
        match self {
            Phase::Sleep => "sleep",
            Phase::Mark => "mark",
            Phase::Sweep => "sweep",
            Phase::SweepMid => "sweepmid",
        }
    }
}
impl Age {
    pub fn name(self) -> &'static str {
        match self {
            Age::Fresh => "fresh",
            Age::Black => "black",
            Age::Ww => "ww",
        }
    }
}

pub struct Spec {
    pub chain: Vec<Step>,
    pub placement: Placement,
    pub sched: Sched,
    pub phase: Phase,
    pub age: Age,
    /// length of the slice / str
    pub n: usize,
    /// target `dyn`: the chain starts from `unsize!(orig => dyn Tr)`
    pub init_unsize: bool,
}

#[derive(Default)]
pub struct CaseOut {
    pub answer: Option<String>,
    pub monitors: Vec<String>,
    pub info: String,
}

impl CaseOut {
    pub fn mon(&mut self, s: String) {
        if self.monitors.len() < 12 {
            self.monitors.push(s);
        }
    }
}

thread_local! {
    static NEXT_ID: Cell<u32> = const { Cell::new(1) };
}

fn next_id() -> u32 {
    NEXT_ID.with(|c| {
        let v = c.get();
        c.set(v.wrapping_add(1).max(1));
        v
    })
}

const PACING: Pacing = Pacing {
    sleep_factor: 0.0,
    min_sleep: 0,
    mark_factor: 1.0,
    trace_factor: 1.0,
    keep_factor: 1.0,
    drop_factor: 1.0,
    free_factor: 1.0,
};

#[derive(Default)]
struct Info {
    a0: usize,
    watch: Option<usize>,
    at_alloc: usize,
}

fn do_alloc<'gc, T: ?Sized + Tgt<'gc>>(
    mc: &Mutation<'gc>,
    e: &Exp,
    info: &mut Info,
    out: &mut CaseOut,
) -> GcFat<'gc, T, (), T::P> {
    let d0 = if T::TAG.is_empty() { 0 } else { count_tag(T::TAG) };
    let (orig, recs) = track::recording(|| {
        let child = Gc::new(mc, Leaf { id: e.id, val: leaf_val(e.id) });
        T::alloc(mc, e, child)
    });
    info.at_alloc = if T::TAG.is_empty() { 0 } else { count_tag(T::TAG) - d0 };
    let a0 = Gc::as_ptr(orig) as *const () as usize;
    info.a0 = a0;
    let mut best: Option<track::Rec> = None;
    for r in recs {
        if r.base < a0 && a0 <= r.base + r.size && best.map(|b| r.size < b.size).unwrap_or(true) {
            best = Some(r);
        }
    }
    match best {
        Some(r) => info.watch = track::watch(r),
        None => out.mon(format!("the value address {a0:#x} lies in no block allocated by the allocating call")),
    }
    orig
}

#[derive(Clone, Copy, PartialEq, Eq, Debug)]
enum State {
    Live,
    Condemned,
    Dead,
}

impl State {
    fn name(self) -> &'static str {
        match self {
            State::Live => "live",
            State::Condemned => "condemned",
            State::Dead => "dead",
        }
    }
}

fn ptr_eq_any<'gc>(a: Result<Gc<'gc, ()>, GcWeak<'gc, ()>>, b: Result<Gc<'gc, ()>, GcWeak<'gc, ()>>) -> bool {
    match (a, b) {
        (Ok(x), Ok(y)) => Gc::ptr_eq(x, y) && Gc::ptr_eq(y, x),
        (Err(x), Err(y)) => GcWeak::ptr_eq(x, y),
        (Ok(x), Err(y)) | (Err(y), Ok(x)) => GcWeak::ptr_eq(Gc::downgrade(x), y),
    }
}

/// Identity and deref checks of one stage.  Returns false when the pointer does not have the
/// original address (it must then not be dereferenced or handed to the collector).
fn stage_checks<'gc, T: ?Sized + Tgt<'gc>>(
    mc: &Mutation<'gc>,
    label: &str,
    sh: &Sh<'gc, T>,
    init: &Sh<'gc, T>,
    e: &Exp,
    a0: usize,
    state: State,
    out: &mut CaseOut,
) -> bool {
    let a = sh.addr();
    if a != a0 {
        out.mon(format!("{label}: as_ptr is {a:#x}, the original value address is {a0:#x} (offset {})", a as isize - a0 as isize));
        return false;
    }
    if let Some(t) = sh.stored_thin_addr() {
        if t != a0 {
            out.mon(format!("{label}: the stored thin pointer is {t:#x}, the original value address is {a0:#x}"));
            return false;
        }
    }
    if !ptr_eq_any(sh.erased(), init.erased()) {
        out.mon(format!("{label}: ptr_eq with the original pointer is false"));
    }
    if state == State::Live {
        if sh.is_weak() {
            match sh.try_upgrade(mc) {
                Some(Some(q)) => {
                    if q.addr() != a0 {
                        out.mon(format!("{label}: upgrade yields address {:#x}, not {a0:#x}", q.addr()));
                    } else if let Err(m) = q.check_deref(e) {
                        out.mon(format!("{label}: after upgrade: {m}"));
                    }
                }
                _ => out.mon(format!("{label}: upgrade of a weak pointer to a live, uncondemned value is None")),
            }
        } else if let Err(m) = sh.check_deref(e) {
            out.mon(format!("{label}: {m}"));
        }
    }
    true
}

struct Conv {
    /// `ok final=… state=…` | `ill-typed k` | `upgrade-none k state=…`
    head: String,
    chain_done: bool,
    stashable: bool,
    /// the slot holds a weak converted pointer
    slot_weak: bool,
    handle: Option<Box<dyn Handle>>,
}

fn convert<'gc, T: ?Sized + Tgt<'gc>>(
    mc: &Mutation<'gc>,
    root: &mut CaseRoot<'gc, T>,
    spec: &Spec,
    e: &Exp,
    info: &mut Info,
    out: &mut CaseOut,
) -> Conv {
    let mut orig: Option<GcFat<'gc, T, (), T::P>> = None;
    let init0 = match spec.age {
        Age::Fresh => {
            let o = do_alloc::<T>(mc, e, info, out);
            orig = Some(o);
            Sh::Fat(o)
        }
        Age::Black => {
            let o = root.orig.expect("age black: original rooted");
            orig = Some(o);
            Sh::Fat(o)
        }
        Age::Ww => Sh::WFat(root.pre_weak.expect("age ww: weak rooted")),
    };
    let init = if spec.init_unsize { T::unsize(&init0).expect("the dyn target unsizes") } else { init0 };
    let a0 = info.a0;
    let state = match init.is_dropped() {
        None => State::Live,
        Some(true) => State::Dead,
        Some(false) => match init.try_upgrade(mc) {
            Some(Some(_)) => State::Live,
            _ => State::Condemned,
        },
    };
    stage_checks(mc, "start", &init, &init, e, a0, state, out);
    let mut cur = init;
    let mut failed: Option<String> = None;
    for (k, st) in spec.chain.iter().enumerate() {
        match step(mc, root.set, *st, cur) {
            StepRes::Ok(q) => {
                let label = format!("after step {k} ({})", st.name());
                if !stage_checks(mc, &label, &q, &init, e, a0, state, out) {
                    // a pointer to somewhere else: do not use it any further
                    failed = Some(format!("moved {k}"));
                    break;
                }
                cur = q;
            }
            StepRes::Ill => {
                failed = Some(format!("ill-typed {k}"));
                break;
            }
            StepRes::UpgradeNone => {
                failed = Some(format!("upgrade-none {k} state={}", state.name()));
                break;
            }
        }
    }
    if let Some(f) = failed {
        // the root is left as it was
        return Conv { head: f, chain_done: false, stashable: false, slot_weak: false, handle: None };
    }
    let stashable = matches!(step(mc, root.set, Step::Stash, cur), StepRes::Ok(_));
    let same = cur.addr() == a0 && ptr_eq_any(cur.erased(), init.erased());
    // dereference through the final pointer: how many tokens of the original value it reads
    let readable = if cur.is_weak() {
        if state == State::Live { cur.try_upgrade(mc).flatten() } else { None }
    } else {
        Some(cur)
    };
    let read = match readable {
        None => "-".to_string(),
        Some(r) => match r.check_deref(e) {
            Ok(()) => match r {
                Sh::Unit(_) | Sh::UnitThin(_) => "0".to_string(),
                _ => T::tokens(e).to_string(),
            },
            Err(_) => "bad".to_string(),
        },
    };
    let line = format!(
        "ok final={} words={} dlen={} same={} state={} read={}",
        cur.tags(),
        cur.words(),
        cur.dlen(),
        if same { 1 } else { 0 },
        state.name(),
        read
    );
    let mut handle = None;
    let mut slot_weak = false;
    match spec.placement {
        Placement::Conv => {
            root.slot = Some(cur);
            root.orig = None;
            root.pre_weak = None;
            slot_weak = cur.is_weak();
        }
        Placement::Orig => {
            root.slot = None;
            if spec.age == Age::Fresh {
                root.orig = orig;
            }
        }
        Placement::Both => {
            root.slot = Some(cur);
            if spec.age == Age::Fresh {
                root.orig = orig;
            }
            slot_weak = cur.is_weak();
        }
        Placement::Dyn => {
            handle = stash_handle(root.set, mc, &cur);
            if handle.is_none() {
                out.mon("placement dyn: the final pointer cannot be stashed".to_string());
            }
            root.slot = None;
            root.orig = None;
            root.pre_weak = None;
        }
    }
    Conv { head: line, chain_done: true, stashable, slot_weak, handle }
}

fn set_debt<R: for<'a> Rootable<'a>>(arena: &Arena<R>, d: f64) {
    let m = arena.metrics();
    let mut bump = 1.0;
    for _ in 0..40 {
        let cur = m.allocation_debt();
        if cur > 0.0 {
            m.adjust_debt(d - cur);
            return;
        }
        m.adjust_debt(bump);
        bump *= 2.0;
    }
}

fn rank(p: CollectionPhase) -> u8 {
    match p {
        CollectionPhase::Sleeping => 0,
        CollectionPhase::Marking | CollectionPhase::Marked => 1,
        CollectionPhase::Sweeping => 2,
    }
}

fn phase_name(p: CollectionPhase) -> &'static str {
    match p {
        CollectionPhase::Sleeping => "Sleeping",
        CollectionPhase::Marking => "Marking",
        CollectionPhase::Marked => "Marked",
        CollectionPhase::Sweeping => "Sweeping",
    }
}

/// Run the collection schedule; returns the number of cycle boundaries crossed by increments.
fn schedule<F: Fam>(arena: &mut Arena<RootFam<F>>, s: Sched) -> usize {
    match s {
        Sched::Full => {
            arena.finish_cycle();
            arena.finish_cycle();
            0
        }
        Sched::Inc => {
            const WORK: [f64; 5] = [0.75, 2.5, 1.0, 4.0, 1.5];
            let mut cycles = 0;
            let mut prev = rank(arena.collection_phase());
            let mut i = 0;
            while cycles < 2 && i < 400 {
                if i % 4 == 1 {
                    arena.mutate_root(|mc, root| {
                        let n = root.noise.len() as u64;
                        let head = root.noise.last().copied();
                        root.noise.push(Gc::new(mc, Noise { next: head, pad: n }));
                        if root.noise.len() > 5 {
                            root.noise.remove(0);
                        }
                    });
                }
                set_debt(arena, WORK[i % WORK.len()]);
                if i % 3 == 1 {
                    let _ = arena.mark_debt();
                } else {
                    arena.collect_debt();
                }
                let r = rank(arena.collection_phase());
                if r < prev {
                    cycles += 1;
                }
                prev = r;
                i += 1;
            }
            let done = cycles;
            // whatever the increments achieved, make sure two full cycles have run
            if cycles < 2 {
                arena.finish_cycle();
                arena.finish_cycle();
            } else {
                arena.finish_cycle();
            }
            done
        }
    }
}

/// What the destructor log says about the value of this case.
struct DropObs {
    value_entries: usize,
    leaf_entries: usize,
}

/// Static facts about the target type that do not depend on the brand lifetime.
struct TInfo {
    tag: &'static str,
    per_value: usize,
    has_child: bool,
}

fn observe_drops(t: &TInfo, e: &Exp, info: &Info, out: &mut CaseOut, label: &str) -> DropObs {
    let log = drops();
    let mut value_entries = 0;
    let mut leaf_entries = 0;
    let mut seen: Vec<(&'static str, u32, u32)> = Vec::new();
    for ent in &log {
        let (tag, id, idx) = *ent;
        if tag == "Leaf" && id == e.id {
            leaf_entries += 1;
        } else if !t.tag.is_empty() && tag == t.tag && (id == e.id || id == 0) {
            value_entries += 1;
            // zero-sized values carry no instance id: the alloc-time entry and the destruction
            // entry are indistinguishable, so duplicates are judged by count below
            if id != 0 {
                if seen.contains(ent) {
                    out.mon(format!("{label}: the destructor of ({tag}, instance {id}, element {idx}) ran twice"));
                }
                seen.push(*ent);
            }
        } else {
            out.mon(format!(
                "{label}: a destructor of type {tag} (instance {id}, element {idx}) ran, but the value was allocated as {}",
                if t.tag.is_empty() { "str" } else { t.tag }
            ));
        }
    }
    if leaf_entries > 1 {
        out.mon(format!("{label}: the child's destructor ran {leaf_entries} times"));
    }
    let full = info.at_alloc + t.per_value;
    if value_entries > full {
        out.mon(format!("{label}: {value_entries} destructor runs of {} logged, one destruction of the value accounts for {full}", t.tag));
    }
    DropObs { value_entries, leaf_entries }
}

fn tinfo<'gc, T: ?Sized + Tgt<'gc>>(_root: &CaseRoot<'gc, T>, e: &Exp) -> TInfo {
    TInfo { tag: T::TAG, per_value: T::drops_per_value(e), has_child: T::has_child(e) }
}

/// Are weak pointers rooted, and does one of them report the value as dropped?
fn weak_view<'gc, T: ?Sized + Tgt<'gc>>(root: &CaseRoot<'gc, T>) -> (bool, bool) {
    let weak_rooted = root.pre_weak.is_some() || root.slot.as_ref().map(|s| s.is_weak()).unwrap_or(false);
    let weak_dropped = root.pre_weak.map(|w| w.is_dropped()).unwrap_or(false)
        || root.slot.as_ref().and_then(|s| s.is_dropped()).unwrap_or(false);
    (weak_rooted, weak_dropped)
}

/// The value is kept: everything the root (or the handle) holds must still lead to it.
fn check_kept<'gc, T: ?Sized + Tgt<'gc>>(
    mc: &Mutation<'gc>,
    root: &CaseRoot<'gc, T>,
    handle: Option<&Box<dyn Handle>>,
    e: &Exp,
    a0: usize,
    out: &mut CaseOut,
) {
    if let Some(s) = root.slot.as_ref() {
        stage_checks(mc, "rooted converted pointer after the collections", s, s, e, a0, State::Live, out);
    }
    if let Some(o) = root.orig {
        if Gc::as_ptr(o) as *const () as usize != a0 {
            out.mon("the rooted original pointer changed address".to_string());
        }
        if let Err(m) = T::check(&*o, e) {
            out.mon(format!("rooted original pointer after the collections: {m}"));
        }
    }
    if let Some(w) = root.pre_weak {
        stage_checks(mc, "rooted original weak pointer after the collections", &Sh::WFat(w), &Sh::WFat(w), e, a0, State::Live, out);
    }
    if let Some(h) = handle {
        let (a, r) = h.observe(root.set, e);
        if a != a0 {
            out.mon(format!("DynamicRootSet::fetch yields address {a:#x}, the original value address is {a0:#x}"));
        }
        if let Err(m) = r {
            out.mon(format!("fetched pointer after the collections: {m}"));
        }
    }
}

/// The value is destructed: what the rooted weak pointers must say.  Returns the answer of
/// `upgrade` on the converted weak pointer in the slot, if there is one.
fn check_weak_after<'gc, T: ?Sized + Tgt<'gc>>(
    mc: &Mutation<'gc>,
    root: &CaseRoot<'gc, T>,
    a0: usize,
    label: &str,
    out: &mut CaseOut,
) -> Option<bool> {
    let mut slot_up = None;
    if let Some(s) = root.slot.as_ref() {
        if s.is_weak() {
            if s.addr() != a0 {
                out.mon(format!("{label}: the rooted converted weak pointer's address changed"));
            }
            if s.is_dropped() != Some(true) {
                out.mon(format!("{label}: is_dropped() of the converted weak pointer is false although the value was destructed"));
            }
            slot_up = Some(matches!(s.try_upgrade(mc), Some(Some(_))));
        }
    }
    if let Some(w) = root.pre_weak {
        if !w.is_dropped() {
            out.mon(format!("{label}: is_dropped() of the original weak pointer is false although the value was destructed"));
        }
        if w.upgrade(mc).is_some() {
            out.mon(format!("{label}: upgrade of the original weak pointer to a destructed value is Some"));
        }
    }
    slot_up
}

/// Run one case for the target family `F`.
pub fn run_case<F: Fam>(spec: &Spec, out: &mut CaseOut) {
    reset_drops();
    track::reset();
    let e = Exp { id: next_id(), n: spec.n };
    let mut info = Info::default();
    let mut arena = Arena::<RootFam<F>>::new(|mc| CaseRoot::new(mc));
    arena.metrics().set_pacing(PACING);
    let t = arena.mutate(|_, root| tinfo(root, &e));

    // ---- a value allocated in an earlier callback ----
    if spec.age != Age::Fresh {
        arena.mutate_root(|mc, root| {
            let o = do_alloc(mc, &e, &mut info, out);
            match spec.age {
                Age::Black => root.orig = Some(o),
                _ => root.pre_weak = Some(Gc::downgrade(o)),
            }
        });
    }

    // ---- bring the collector into the requested phase ----
    match spec.phase {
        Phase::Sleep => {
            if spec.age == Age::Black {
                arena.finish_cycle();
            }
        }
        Phase::Mark => {
            for _ in 0..4 {
                if arena.collection_phase() != CollectionPhase::Sleeping {
                    break;
                }
                set_debt(&arena, 1.5);
                let _ = arena.mark_debt();
            }
        }
        Phase::Sweep | Phase::SweepMid => {
            if let Some(m) = arena.finish_marking() {
                m.start_sweeping();
            }
            if spec.phase == Phase::SweepMid {
                for k in 0..8 {
                    let passed = arena.mutate(|_, root| match root.pre_weak {
                        Some(w) => w.is_dropped(),
                        None => k >= 2,
                    });
                    if passed || arena.collection_phase() != CollectionPhase::Sweeping {
                        break;
                    }
                    set_debt(&arena, 1.0);
                    arena.collect_debt();
                }
            }
        }
    }
    let at = arena.collection_phase();

    // ---- convert and place ----
    let conv = arena.mutate_root(|mc, root| convert(mc, root, spec, &e, &mut info, out));
    let a0 = info.a0;
    if !conv.chain_done && conv.head.starts_with("ill-typed") {
        out.answer = Some(conv.head);
        out.info = format!("phase={}", phase_name(at));
        return;
    }

    // ---- collect while the placement holds ----
    let inc_cycles = schedule(&mut arena, spec.sched);
    out.info = format!("phase={} inc_cycles={}", phase_name(at), inc_cycles);

    let watched = |info: &Info| info.watch.map(track::watched).unwrap_or_default();
    let full = info.at_alloc + t.per_value;
    let expect_destructed = |label: &str, weak_rooted: bool, out: &mut CaseOut| {
        let obs = observe_drops(&t, &e, &info, out, label);
        if obs.value_entries != full {
            out.mon(format!(
                "{label}: {} destructor run(s) of the original type logged, expected {} at allocation + {} at destruction",
                obs.value_entries,
                info.at_alloc,
                t.per_value
            ));
        }
        let w = watched(&info);
        if weak_rooted && w.frees != 0 {
            out.mon(format!("{label}: the block was released {} time(s) while a weak pointer to it is rooted", w.frees));
        }
    };

    // ---- observe ----
    let mut up_after: Option<bool> = None;
    let obs = observe_drops(&t, &e, &info, out, "after the collections");
    let w = watched(&info);
    let (weak_rooted, weak_dropped) = arena.mutate(|_, root| weak_view(root));
    let destructed = obs.value_entries > info.at_alloc || w.frees > 0 || weak_dropped;
    let kept = !destructed;
    if kept {
        arena.mutate(|mc, root| check_kept(mc, root, conv.handle.as_ref(), &e, a0, out));
        if t.has_child && obs.leaf_entries > 0 {
            out.mon("the child's destructor ran while the value that holds it is kept".to_string());
        }
    } else {
        let strong_rooted = conv.handle.is_some()
            || arena.mutate(|_, root| root.orig.is_some() || root.slot.as_ref().map(|s| !s.is_weak()).unwrap_or(false));
        if strong_rooted {
            out.mon("the value was destructed (or its block released) during the collections although a strong pointer to it is rooted".to_string());
        }
        expect_destructed("value destructed during the collections", weak_rooted, out);
        if weak_rooted {
            up_after = arena.mutate(|mc, root| check_weak_after(mc, root, a0, "value destructed during the collections", out));
        }
    }

    if kept && conv.slot_weak {
        // `upgrade` was Some while the value was kept (check_kept); now let the value go and
        // keep only the converted weak pointer
        arena.mutate_root(|_, root| {
            root.orig = None;
            root.pre_weak = None;
        });
        arena.finish_cycle();
        arena.finish_cycle();
        let label = "after removing the other roots and two full cycles";
        expect_destructed(label, true, out);
        up_after = arena.mutate(|mc, root| check_weak_after(mc, root, a0, label, out));
    }
    drop(conv.handle);

    // ---- unroot everything, two full cycles ----
    arena.mutate_root(|_, root| {
        root.slot = None;
        root.orig = None;
        root.pre_weak = None;
    });
    arena.finish_cycle();
    arena.finish_cycle();
    expect_destructed("after unrooting and two full cycles", false, out);
    let w = watched(&info);
    if w.frees != 1 {
        out.mon(format!("after unrooting and two full cycles the block was released {} time(s)", w.frees));
    }
    if w.bad_layout != 0 {
        out.mon(format!("the block (size {}, align {}) was released with a different layout", w.size, w.align));
    }
    let obs_end = observe_drops(&t, &e, &info, out, "at the end");
    if obs_end.leaf_entries != 1 {
        out.mon(format!("the child was destructed {} time(s) by the end", obs_end.leaf_entries));
    }
    let n_before = drops().len();
    drop(arena);
    if drops().len() != n_before {
        out.mon(format!("dropping the arena ran {} more destructor(s)", drops().len() - n_before));
    }
    let w = watched(&info);
    if w.frees != 1 {
        out.mon(format!("after dropping the arena the block was released {} time(s)", w.frees));
    }
    // the destructor log names the type every destructor ran as
    let mut tags: Vec<&'static str> = drops().iter().map(|d| d.0).filter(|t| *t != "Leaf").collect();
    tags.sort();
    tags.dedup();
    let ran_as = if tags.is_empty() { "-".to_string() } else { tags.join("+") };
    let dr = format!("drops={}+{} as={}", info.at_alloc, obs_end.value_entries.saturating_sub(info.at_alloc), ran_as);
    out.answer = Some(if conv.chain_done {
        let up = match up_after {
            None => "na",
            Some(true) => "some",
            Some(false) => "none",
        };
        format!("{} keeps={} stash={} up_after={} {}", conv.head, if kept { 1 } else { 0 }, if conv.stashable { 1 } else { 0 }, up, dr)
    } else {
        format!("{} {}", conv.head, dr)
    });
}

// ---------------------------------------------------------------------------------------------
// enumeration of the well-typed chains by executing them
// ---------------------------------------------------------------------------------------------

pub struct ChainInfo {
    pub chain: Vec<Step>,
    pub stashable: bool,
}

pub struct Enumeration {
    /// chains whose last step produced a pointer with another address (not extended further)
    pub moved: Vec<Vec<Step>>,
    /// well-typed chains, by length, each length in the model's `chainsOfLen` order
    pub by_len: Vec<Vec<ChainInfo>>,
    /// chains `c ++ [s]` with `c` well typed, `len c < ill_len`, and `s` rejected
    pub ill: Vec<Vec<Step>>,
}

fn dfs<'gc, T: ?Sized + Tgt<'gc>>(
    mc: &Mutation<'gc>,
    set: DynamicRootSet<'gc>,
    a0: usize,
    cur: Sh<'gc, T>,
    chain: &mut Vec<Step>,
    maxlen: usize,
    ill_len: usize,
    en: &mut Enumeration,
) {
    let stashable = matches!(step(mc, set, Step::Stash, cur), StepRes::Ok(_));
    en.by_len[chain.len()].push(ChainInfo { chain: chain.clone(), stashable });
    if chain.len() == maxlen {
        return;
    }
    for st in Step::ALL {
        match step(mc, set, st, cur) {
            StepRes::Ok(q) => {
                chain.push(st);
                if q.addr() != a0 || q.stored_thin_addr().map(|t| t != a0).unwrap_or(false) {
                    if en.moved.len() < 64 {
                        en.moved.push(chain.clone());
                    }
                } else {
                    dfs(mc, set, a0, q, chain, maxlen, ill_len, en);
                }
                chain.pop();
            }
            StepRes::Ill => {
                if chain.len() < ill_len {
                    let mut c = chain.clone();
                    c.push(st);
                    en.ill.push(c);
                }
            }
            StepRes::UpgradeNone => panic!("enumeration: upgrade of a live value refused"),
        }
    }
}

pub fn enumerate<F: Fam>(n: usize, init_weak: bool, init_unsize: bool, maxlen: usize, ill_len: usize) -> Enumeration {
    let mut en = Enumeration { moved: Vec::new(), by_len: (0..=maxlen).map(|_| Vec::new()).collect(), ill: Vec::new() };
    let e = Exp { id: next_id(), n };
    let mut arena = Arena::<RootFam<F>>::new(|mc| CaseRoot::new(mc));
    let mut info = Info::default();
    let mut out = CaseOut::default();
    arena.mutate_root(|mc, root| {
        let o = do_alloc(mc, &e, &mut info, &mut out);
        root.orig = Some(o);
        let init0 = if init_weak { Sh::WFat(Gc::downgrade(o)) } else { Sh::Fat(o) };
        let init = if init_unsize { <F::T<'_> as Tgt<'_>>::unsize(&init0).expect("unsize") } else { init0 };
        let mut chain = Vec::new();
        dfs(mc, root.set, info.a0, init, &mut chain, maxlen, ill_len, &mut en);
    });
    track::reset();
    drop(arena);
    reset_drops();
    en
}

/// A random well-typed chain of the given length (random walk over the accepted steps).
pub fn random_chain<F: Fam>(n: usize, init_weak: bool, init_unsize: bool, len: usize, rng: &mut u64) -> ChainInfo {
    let e = Exp { id: next_id(), n };
    let mut arena = Arena::<RootFam<F>>::new(|mc| CaseRoot::new(mc));
    let mut info = Info::default();
    let mut out = CaseOut::default();
    let r = arena.mutate_root(|mc, root| {
        let o = do_alloc(mc, &e, &mut info, &mut out);
        root.orig = Some(o);
        let init0 = if init_weak { Sh::WFat(Gc::downgrade(o)) } else { Sh::Fat(o) };
        let mut cur = if init_unsize { <F::T<'_> as Tgt<'_>>::unsize(&init0).expect("unsize") } else { init0 };
        let mut chain = Vec::new();
        while chain.len() < len {
            let st = Step::ALL[(crate::splitmix(rng) % Step::ALL.len() as u64) as usize];
            // identity steps are drawn less often: they add length, not coverage
            if matches!(st, Step::Copy | Step::PtrKind | Step::ThinPtr) && crate::splitmix(rng) % 3 != 0 {
                continue;
            }
            if let StepRes::Ok(q) = step(mc, root.set, st, cur) {
                chain.push(st);
                if q.addr() != info.a0 {
                    break; // the case that runs this chain reports it
                }
                cur = q;
            }
        }
        let stashable = matches!(step(mc, root.set, Step::Stash, cur), StepRes::Ok(_));
        ChainInfo { chain, stashable }
    });
    track::reset();
    drop(arena);
    reset_drops();
    r
}
