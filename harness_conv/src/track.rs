//! A thin tracking global allocator.
//!
//! * While recording is on, every allocation is noted (address, size, alignment) so that the case
//!   can find the block that holds the value it just allocated.
//! * A *watched* block is never handed back to the system allocator: the first release is
//!   counted, its layout is compared with the layout it was allocated with, the bytes are
//!   overwritten with 0xDD (so that a later read through a dangling pointer is visible as a
//!   damaged payload instead of being undefined), and the block is leaked.  Further releases of
//!   the same address are counted as double frees.
//!
//! The harness is single threaded; the statics are only touched from the main thread.

use std::alloc::{GlobalAlloc, Layout, System};
use std::cell::UnsafeCell;

pub struct Tracker;

#[derive(Clone, Copy, Default)]
pub struct Rec {
    pub base: usize,
    pub size: usize,
    pub align: usize,
}

#[derive(Clone, Copy, Default)]
pub struct Watch {
    pub base: usize,
    pub size: usize,
    pub align: usize,
    pub frees: usize,
    pub bad_layout: usize,
}

const NREC: usize = 64;
const NWATCH: usize = 8;

struct State {
    rec_on: bool,
    nrec: usize,
    rec: [Rec; NREC],
    nwatch: usize,
    watch: [Watch; NWATCH],
}

struct Shared(UnsafeCell<State>);
unsafe impl Sync for Shared {}

static STATE: Shared = Shared(UnsafeCell::new(State {
    rec_on: false,
    nrec: 0,
    rec: [Rec { base: 0, size: 0, align: 0 }; NREC],
    nwatch: 0,
    watch: [Watch { base: 0, size: 0, align: 0, frees: 0, bad_layout: 0 }; NWATCH],
}));

#[inline(always)]
fn st() -> *mut State {
    STATE.0.get()
}

unsafe impl GlobalAlloc for Tracker {
    unsafe fn alloc(&self, l: Layout) -> *mut u8 {
        unsafe {
            let p = System.alloc(l);
            let s = st();
            if (*s).rec_on && (*s).nrec < NREC && !p.is_null() {
                let n = (*s).nrec;
                (*s).rec[n] = Rec { base: p as usize, size: l.size(), align: l.align() };
                (*s).nrec = n + 1;
            }
            p
        }
    }

    unsafe fn dealloc(&self, p: *mut u8, l: Layout) {
        unsafe {
            let s = st();
            let n = (*s).nwatch;
            for i in 0..n {
                let w = &mut (*s).watch[i];
                if w.base == p as usize {
                    w.frees += 1;
                    if l.size() != w.size || l.align() != w.align {
                        w.bad_layout += 1;
                    }
                    if w.frees == 1 {
                        std::ptr::write_bytes(p, 0xDD, w.size);
                    }
                    return; // quarantined: never reused
                }
            }
            System.dealloc(p, l)
        }
    }
}

/// Forget all watches and recordings (start of a case).
pub fn reset() {
    unsafe {
        let s = st();
        (*s).rec_on = false;
        (*s).nrec = 0;
        (*s).nwatch = 0;
    }
}

/// Run `f` with allocation recording on and return what it allocated.
pub fn recording<R>(f: impl FnOnce() -> R) -> (R, Vec<Rec>) {
    unsafe {
        let s = st();
        (*s).nrec = 0;
        (*s).rec_on = true;
    }
    let r = f();
    unsafe {
        let s = st();
        (*s).rec_on = false;
        let n = (*s).nrec;
        let mut v = Vec::with_capacity(n);
        for i in 0..n {
            v.push((*s).rec[i]);
        }
        (r, v)
    }
}

/// Start watching a block; returns its index.
pub fn watch(r: Rec) -> Option<usize> {
    unsafe {
        let s = st();
        let n = (*s).nwatch;
        if n >= NWATCH {
            return None;
        }
        (*s).watch[n] = Watch { base: r.base, size: r.size, align: r.align, frees: 0, bad_layout: 0 };
        (*s).nwatch = n + 1;
        Some(n)
    }
}

pub fn watched(i: usize) -> Watch {
    unsafe { (*st()).watch[i] }
}
