//! The ZstCache grid: for every (type size, type alignment, MAX_ALIGN, method) whether `alloc`
//! shares, whether the pointer is aligned, and when the value's destructor runs.

use crate::run::CaseOut;
use crate::types::{count_tag, reset_drops};
use gc_arena::zst_cache::{Alignment, ValidAlignment, ZstCache};
use gc_arena::{Arena, Collect, Gc, Rootable};

pub trait ZLike: 'static + for<'gc> Collect<'gc> {
    const SIZE: usize;
    const ALIGN: usize;
    const TAG: &'static str;
    fn make() -> Self;
    fn ok(&self) -> bool;
}

macro_rules! zlike {
    ($name:ident, $a:literal, $tag:literal, zst) => {
        #[repr(align($a))]
        pub struct $name;
        impl Drop for $name {
            fn drop(&mut self) {
                crate::types::log_drop($tag, 0, 0);
            }
        }
        unsafe impl<'gc> Collect<'gc> for $name {
            const NEEDS_TRACE: bool = false;
        }
        impl ZLike for $name {
            const SIZE: usize = 0;
            const ALIGN: usize = $a;
            const TAG: &'static str = $tag;
            fn make() -> Self {
                $name
            }
            fn ok(&self) -> bool {
                std::mem::size_of_val(self) == 0
            }
        }
    };
    ($name:ident, $a:literal, $tag:literal, sized) => {
        #[repr(align($a))]
        pub struct $name(u8);
        impl Drop for $name {
            fn drop(&mut self) {
                crate::types::log_drop($tag, 0, 0);
                self.0 = 0xEE;
            }
        }
        unsafe impl<'gc> Collect<'gc> for $name {
            const NEEDS_TRACE: bool = false;
        }
        impl ZLike for $name {
            const SIZE: usize = $a;
            const ALIGN: usize = $a;
            const TAG: &'static str = $tag;
            fn make() -> Self {
                $name(0x5A)
            }
            fn ok(&self) -> bool {
                self.0 == 0x5A
            }
        }
    };
}

zlike!(G1, 1, "G1", zst);
zlike!(G2, 2, "G2", zst);
zlike!(G4, 4, "G4", zst);
zlike!(G8, 8, "G8", zst);
zlike!(G16, 16, "G16", zst);
zlike!(G32, 32, "G32", zst);
zlike!(G64, 64, "G64", zst);
zlike!(N1, 1, "N1", sized);
zlike!(N2, 2, "N2", sized);
zlike!(N4, 4, "N4", sized);
zlike!(N8, 8, "N8", sized);
zlike!(N16, 16, "N16", sized);
zlike!(N32, 32, "N32", sized);
zlike!(N64, 64, "N64", sized);

#[derive(Collect)]
#[collect(no_drop)]
struct ZRoot<'gc, Z: 'static> {
    p1: Option<Gc<'gc, Z>>,
    p2: Option<Gc<'gc, Z>>,
}

pub fn query<Z: ZLike, const M: usize>(method: &str) -> String {
    format!("zst {} {} {} {}", Z::SIZE, Z::ALIGN, M, method)
}

pub fn zst_case<Z: ZLike, const M: usize>(method: &str, out: &mut CaseOut)
where
    Alignment<M>: ValidAlignment,
{
    reset_drops();
    let mut arena = Arena::<Rootable![ZRoot<'_, Z>]>::new(|_| ZRoot { p1: None, p2: None });
    let base_count = arena.metrics().total_gc_count();
    struct R {
        shared: bool,
        fresh: usize,
        drops_now: usize,
        aligned: bool,
        a1: usize,
        a2: usize,
    }
    let r = arena.mutate_root(|mc, root| {
        let cache = ZstCache::<M>::new(mc);
        let cached_addr = Gc::as_ptr(cache.cached_ptr()) as usize;
        let n0 = mc.metrics().total_gc_count();
        let d0 = count_tag(Z::TAG);
        let (p1, p2) = if method == "alloc" {
            (cache.alloc(mc, Z::make()), cache.alloc(mc, Z::make()))
        } else {
            (cache.alloc_static(mc, Z::make()), cache.alloc_static(mc, Z::make()))
        };
        let drops_now = count_tag(Z::TAG) - d0;
        let fresh = mc.metrics().total_gc_count() - n0;
        let a1 = Gc::as_ptr(p1) as usize;
        let a2 = Gc::as_ptr(p2) as usize;
        let shared = Gc::ptr_eq(p1, p2);
        let c1 = cache.is_cached(p1);
        let c2 = cache.is_cached(p2);
        if shared != (c1 && c2) || c1 != c2 {
            out.mon(format!("ptr_eq of two allocs is {shared} but is_cached answers {c1} / {c2}"));
        }
        if shared && a1 != cached_addr {
            out.mon(format!("the shared pointer {a1:#x} is not the cache's pointer {cached_addr:#x}"));
        }
        if cached_addr % M != 0 {
            out.mon(format!("the cache's own pointer {cached_addr:#x} is not aligned to MAX_ALIGN = {M}"));
        }
        if !p1.ok() || !p2.ok() {
            out.mon("deref of the returned pointer does not read the value".to_string());
        }
        let aligned = a1 % Z::ALIGN == 0 && a2 % Z::ALIGN == 0;
        root.p1 = Some(p1);
        root.p2 = Some(p2);
        // the cache itself is not kept
        R { shared, fresh, drops_now, aligned, a1, a2 }
    });
    arena.finish_cycle();
    arena.finish_cycle();
    let mid = count_tag(Z::TAG);
    if mid != r.drops_now {
        out.mon(format!("{} destructor run(s) while both pointers are rooted", mid - r.drops_now));
    }
    arena.mutate(|_, root| {
        let (p1, p2) = (root.p1.unwrap(), root.p2.unwrap());
        if Gc::as_ptr(p1) as usize != r.a1 || Gc::as_ptr(p2) as usize != r.a2 || !p1.ok() || !p2.ok() {
            out.mon("a rooted pointer from the cache changed address or no longer reads the value after the cache itself was dropped and two cycles ran".to_string());
        }
    });
    let expect_live = if r.shared { 1 } else { 2 };
    let live = arena.metrics().total_gc_count() - base_count;
    if live != expect_live {
        out.mon(format!("{live} allocation(s) survive with both pointers rooted, expected {expect_live}"));
    }
    arena.mutate_root(|_, root| {
        root.p1 = None;
        root.p2 = None;
    });
    arena.finish_cycle();
    arena.finish_cycle();
    let drops_later = count_tag(Z::TAG) - r.drops_now;
    if arena.metrics().total_gc_count() != base_count {
        out.mon(format!("{} allocation(s) left after unrooting and two cycles", arena.metrics().total_gc_count() - base_count));
    }
    drop(arena);
    if count_tag(Z::TAG) != r.drops_now + drops_later {
        out.mon("dropping the arena ran more destructors".to_string());
    }
    if r.drops_now % 2 != 0 || drops_later % 2 != 0 || (r.fresh != 0 && r.fresh != 2) {
        out.mon(format!("the two identical requests were treated differently: fresh {} drops now {} later {}", r.fresh, r.drops_now, drops_later));
    }
    out.answer = Some(format!(
        "shared={} fresh={} drops_now={} drops_later={} aligned={}",
        if r.shared { 1 } else { 0 },
        if r.fresh == 2 { 1 } else { 0 },
        r.drops_now / 2,
        drops_later / 2,
        if r.aligned { 1 } else { 0 }
    ));
}
