//! The ZstCache grid: for every (type size, type alignment, MAX_ALIGN, method) whether `alloc`
//! shares, whether the pointer is aligned, and when the value's destructor runs.

use crate::run::CaseOut;
use crate::types::{count_tag, reset_drops};
use gc_arena::zst_cache::{Alignment, ValidAlignment, ZstCache};
use gc_arena::{Arena, Collect, Gc, Rootable};

pub trait ZLike: 'static + for<'gc> Collect<'gc> {
    const SIZE: usize;
    const ALIGN: usize;
    const TAG: &'static str;
    fn make() -> Self;
    fn ok(&self) -> bool;
}

macro_rules! zlike {
    ($name:ident, $a:literal, $tag:literal, zst) => {
        #[repr(align($a))]
        pub struct $name;
        impl Drop for $name {
            fn drop(&mut self) {
                crate::types::log_drop($tag, 0, 0);
            }
        }
        unsafe impl<'gc> Collect<'gc> for $name {
            const NEEDS_TRACE: bool = false;
        }
        impl ZLike for $name {
            const SIZE: usize = 0;
            const ALIGN: usize = $a;
            const TAG: &'static str = $tag;
            fn make() -> Self {
                $name
            }
            fn ok(&self) -> bool {
                std::mem::size_of_val(self) == 0
            }
        }
    };
    ($name:ident, $a:literal, $tag:literal, sized) => {
        #[repr(align($a))]
        pub struct $name(u8);
        impl Drop for $name {
            fn drop(&mut self) {
                crate::types::log_drop($tag, 0, 0);
                self.0 = 0xEE;
            }
        }
        unsafe impl<'gc> Collect<'gc> for $name {
            const NEEDS_TRACE: bool = false;
        }
        impl ZLike for $name {
            const SIZE: usize = $a;
            const ALIGN: usize = $a;
            const TAG: &'static str = $tag;
            fn make() -> Self {
                $name(0x5A)
            }
            fn ok(&self) -> bool {
                self.0 == 0x5A
            }
        }
    };
}

zlike!(G1, 1, "G1", zst);
zlike!(G2, 2, "G2", zst);
zlike!(G4, 4, "G4", zst);
zlike!(G8, 8, "G8", zst);
zlike!(G16, 16, "G16", zst);
zlike!(G32, 32, "G32", zst);
zlike!(G64, 64, "G64", zst);
zlike!(N1, 1, "N1", sized);
zlike!(N2, 2, "N2", sized);
zlike!(N4, 4, "N4", sized);
zlike!(N8, 8, "N8", sized);
zlike!(N16, 16, "N16", sized);
zlike!(N32, 32, "N32", sized);
zlike!(N64, 64, "N64", sized);

#[derive(Collect)]
#[collect(no_drop)]
struct ZRoot<'gc, Z: 'static> {
    p1: Option<Gc<'gc, Z>>,
    p2: Option<Gc<'gc, Z>>,
}

pub fn query<Z: ZLike, const M: usize>(method: &str) -> String {
    format!("zst {} {} {} {}", Z::SIZE, Z::ALIGN, M, method)
}

pub fn zst_case<Z: ZLike, const M: usize>(method: &str, out: &mut CaseOut)
where
    Alignment<M>: ValidAlignment,
{
    reset_drops();
    let mut arena = Arena::<Rootable![ZRoot<'_, Z>]>::new(|_| ZRoot { p1: None, p2: None });
    let base_count = arena.metrics().total_gc_count();
    struct R {
        shared: bool,
        fresh: usize,
        drops_now: usize,
        aligned: bool,
        a1: usize,
        a2: usize,
    }
    let r = arena.mutate_root(|mc, root| {
        let cache = ZstCache::<M>::new(mc);
        let cached_addr = Gc::as_ptr(cache.cached_ptr()) as usize;
        let n0 = mc.metrics().total_gc_count();
        let d0 = count_tag(Z::TAG);
        let (p1, p2) = if method == "alloc" {
            (cache.alloc(mc, Z::make()), cache.alloc(mc, Z::make()))
        } else {
            (cache.alloc_static(mc, Z::make()), cache.alloc_static(mc, Z::make()))
        };
        let drops_now = count_tag(Z::TAG) - d0;
        let fresh = mc.metrics().total_gc_count() - n0;
        let a1 = Gc::as_ptr(p1) as usize;
        let a2 = Gc::as_ptr(p2) as usize;
        let shared = Gc::ptr_eq(p1, p2);
        let c1 = cache.is_cached(p1);
        let c2 = cache.is_cached(p2);
        if shared != (c1 && c2) || c1 != c2 {
            out.mon(format!("ptr_eq of two allocs is {shared} but is_cached answers {c1} / {c2}"));
        }
        if shared && a1 != cached_addr {
            out.mon(format!("the shared pointer {a1:#x} is not the cache's pointer {cached_addr:#x}"));
        }
        if cached_addr % M != 0 {
            out.mon(format!("the cache's own pointer {cached_addr:#x} is not aligned to MAX_ALIGN = {M}"));
        }
        if !p1.ok() || !p2.ok() {
            out.mon("deref of the returned pointer does not read the value".to_string());
        }
        let aligned = a1 % Z::ALIGN == 0 && a2 % Z::ALIGN == 0;
        root.p1 = Some(p1);
        root.p2 = Some(p2);
        // the cache itself is not kept
        R { shared, fresh, drops_now, aligned, a1, a2 }
    });
    arena.finish_cycle();
    arena.finish_cycle();
    let mid = count_tag(Z::TAG);
    if mid != r.drops_now {
        out.mon(format!("{} destructor run(s) while both pointers are rooted", mid - r.drops_now));
    }
    arena.mutate(|_, root| {
        let (p1, p2) = (root.p1.unwrap(), root.p2.unwrap());
        if Gc::as_ptr(p1) as usize != r.a1 || Gc::as_ptr(p2) as usize != r.a2 || !p1.ok() || !p2.ok() {
            out.mon("a rooted pointer from the cache changed address or no longer reads the value after the cache itself was dropped and two cycles ran".to_string());
        }
    });
    let expect_live = if r.shared { 1 } else { 2 };
    let live = arena.metrics().total_gc_count() - base_count;
    if live != expect_live {
        out.mon(format!("{live} allocation(s) survive with both pointers rooted, expected {expect_live}"));
    }
    arena.mutate_root(|_, root| {
        root.p1 = None;
        root.p2 = None;
    });
    arena.finish_cycle();
    arena.finish_cycle();
    let drops_later = count_tag(Z::TAG) - r.drops_now;
    if arena.metrics().total_gc_count() != base_count {
        out.mon(format!("{} allocation(s) left after unrooting and two cycles", arena.metrics().total_gc_count() - base_count));
    }
    drop(arena);
    if count_tag(Z::TAG) != r.drops_now + drops_later {
        out.mon("dropping the arena ran more destructors".to_string());
    }
    if r.drops_now % 2 != 0 || drops_later % 2 != 0 || (r.fresh != 0 && r.fresh != 2) {
        out.mon(format!("the two identical requests were treated differently: fresh {} drops now {} later {}", r.fresh, r.drops_now, drops_later));
    }
    out.answer = Some(format!(
        "shared={} fresh={} drops_now={} drops_later={} aligned={}",
        if r.shared { 1 } else { 0 },
        if r.fresh == 2 { 1 } else { 0 },
        r.drops_now / 2,
        drops_later / 2,
        if r.aligned { 1 } else { 0 }
    ));
}

// ---------------------------------------------------------------------------------------------
// a rooted ZstCache keeps its shared block: `zkeep <holder> <align> <maxalign> <full|inc>`
// ---------------------------------------------------------------------------------------------

/// The cache as a field of a derived struct next to another pointer.
#[derive(Collect)]
#[collect(no_drop)]
pub struct FieldHolder<'gc, const M: usize> {
    other: Gc<'gc, u32>,
    cache: ZstCache<'gc, M>,
}

/// Ways of holding a cache in the root.
pub trait Hold<'gc, const M: usize>: Sized {
    fn hold(mc: &gc_arena::Mutation<'gc>, c: ZstCache<'gc, M>) -> Self;
    fn cache(&self) -> &ZstCache<'gc, M>;
    /// allocations the holder itself adds
    const EXTRA: usize;
}
impl<'gc, const M: usize> Hold<'gc, M> for ZstCache<'gc, M> {
    fn hold(_mc: &gc_arena::Mutation<'gc>, c: ZstCache<'gc, M>) -> Self {
        c
    }
    fn cache(&self) -> &ZstCache<'gc, M> {
        self
    }
    const EXTRA: usize = 0;
}
impl<'gc, const M: usize> Hold<'gc, M> for FieldHolder<'gc, M> {
    fn hold(mc: &gc_arena::Mutation<'gc>, c: ZstCache<'gc, M>) -> Self {
        FieldHolder { other: Gc::new(mc, 7), cache: c }
    }
    fn cache(&self) -> &ZstCache<'gc, M> {
        &self.cache
    }
    const EXTRA: usize = 1;
}
impl<'gc, const M: usize> Hold<'gc, M> for Option<ZstCache<'gc, M>> {
    fn hold(_mc: &gc_arena::Mutation<'gc>, c: ZstCache<'gc, M>) -> Self {
        Some(c)
    }
    fn cache(&self) -> &ZstCache<'gc, M> {
        self.as_ref().unwrap()
    }
    const EXTRA: usize = 0;
}
impl<'gc, const M: usize> Hold<'gc, M> for Box<ZstCache<'gc, M>> {
    fn hold(_mc: &gc_arena::Mutation<'gc>, c: ZstCache<'gc, M>) -> Self {
        Box::new(c)
    }
    fn cache(&self) -> &ZstCache<'gc, M> {
        self
    }
    const EXTRA: usize = 0;
}
impl<'gc, const M: usize> Hold<'gc, M> for Vec<ZstCache<'gc, M>> {
    fn hold(_mc: &gc_arena::Mutation<'gc>, c: ZstCache<'gc, M>) -> Self {
        vec![c]
    }
    fn cache(&self) -> &ZstCache<'gc, M> {
        &self[0]
    }
    const EXTRA: usize = 0;
}
impl<'gc, const M: usize> Hold<'gc, M> for (u8, ZstCache<'gc, M>) {
    fn hold(_mc: &gc_arena::Mutation<'gc>, c: ZstCache<'gc, M>) -> Self {
        (1, c)
    }
    fn cache(&self) -> &ZstCache<'gc, M> {
        &self.1
    }
    const EXTRA: usize = 0;
}

pub const HOLDERS: [&str; 6] = ["root", "field", "option", "box", "vec", "tuple"];

struct Rec1 {
    shared: bool,
    addr: usize,
}

macro_rules! zkeep_body {
    ($root:ty, $m:literal, $z:ty, $inc:expr, $out:expr) => {{
        use crate::track;
        let out: &mut CaseOut = $out;
        reset_drops();
        track::reset();
        let mut watch = None;
        let mut arena = Arena::<Rootable![$root]>::new(|mc| {
            let (c, recs) = track::recording(|| ZstCache::<$m>::new(mc));
            let a0 = Gc::as_ptr(c.cached_ptr()) as usize;
            for r in recs {
                if r.base < a0 && a0 <= r.base + r.size {
                    watch = track::watch(r);
                }
            }
            <$root as Hold<'_, $m>>::hold(mc, c)
        });
        if watch.is_none() {
            out.mon("the cache's pointer lies in no block allocated by ZstCache::new".to_string());
        }
        let extra = <$root as Hold<'_, $m>>::EXTRA;
        let r1 = arena.mutate(|mc, root| {
            let cache = <$root as Hold<'_, $m>>::cache(root);
            let p = cache.alloc(mc, <$z as ZLike>::make());
            Rec1 { shared: cache.is_cached(p), addr: Gc::as_ptr(p) as usize }
        });
        if $inc {
            // many small increments with allocation noise, then make sure two cycles have run
            for i in 0..60 {
                if i % 3 == 0 {
                    arena.mutate(|mc, _| {
                        let _ = Gc::new(mc, i as u64);
                    });
                }
                let m = arena.metrics();
                m.adjust_debt(1.5 - m.allocation_debt());
                if i % 4 == 1 {
                    let _ = arena.mark_debt();
                } else {
                    arena.collect_debt();
                }
            }
        }
        arena.finish_cycle();
        arena.finish_cycle();
        let w = watch.map(track::watched).unwrap_or_default();
        let kept = w.frees == 0;
        if !kept {
            out.mon(format!("the cache's shared block was released {} time(s) while the cache is held in the root ({})", w.frees, stringify!($root)));
        }
        let count_mid = arena.metrics().total_gc_count();
        if count_mid != 1 + extra {
            out.mon(format!("{} allocation(s) alive after two cycles with only the cache rooted, expected {}", count_mid, 1 + extra));
        }
        // allocate again: the same shared pointer (do not touch it if the block is gone)
        let (same, count) = if kept {
            let r2 = arena.mutate(|mc, root| {
                let cache = <$root as Hold<'_, $m>>::cache(root);
                let p = cache.alloc(mc, <$z as ZLike>::make());
                let q = cache.alloc_static(mc, <$z as ZLike>::make());
                if !p.ok() || !q.ok() {
                    out.mon("deref of the pointer allocated after the collections does not read the value".to_string());
                }
                if cache.is_cached(p) != r1.shared || cache.is_cached(q) != r1.shared {
                    out.mon("is_cached answers differently after the collections".to_string());
                }
                if r1.shared && !Gc::ptr_eq(Gc::erase(p), cache.cached_ptr()) {
                    out.mon("the shared pointer allocated after the collections is not ptr_eq to the cache's pointer".to_string());
                }
                Rec1 { shared: cache.is_cached(p), addr: Gc::as_ptr(p) as usize }
            });
            (r2.addr == r1.addr, arena.metrics().total_gc_count() - extra)
        } else {
            (false, arena.metrics().total_gc_count() - extra.min(arena.metrics().total_gc_count()))
        };
        if kept {
            arena.finish_cycle();
            arena.finish_cycle();
            let w = watch.map(track::watched).unwrap_or_default();
            if w.frees != 0 {
                out.mon("the cache's shared block was released by a later cycle while the cache is rooted".to_string());
            }
            drop(arena);
            let w = watch.map(track::watched).unwrap_or_default();
            if w.frees != 1 || w.bad_layout != 0 {
                out.mon(format!("after dropping the arena the cache's block was released {} time(s) (layout mismatches {})", w.frees, w.bad_layout));
            }
        } else {
            // the root holds a dangling pointer: do not run the collector over it again
            std::mem::forget(arena);
        }
        out.answer = Some(format!(
            "ok shared={} kept={} same={} count={}",
            r1.shared as u8,
            kept as u8,
            if r1.shared { (same as u8).to_string() } else { "-".to_string() },
            count
        ));
    }};
}

macro_rules! zkeep_holders {
    ($holder:expr, $m:literal, $z:ty, $inc:expr, $out:expr) => {
        match $holder {
            "root" => zkeep_body!(ZstCache<'_, $m>, $m, $z, $inc, $out),
            "field" => zkeep_body!(FieldHolder<'_, $m>, $m, $z, $inc, $out),
            "option" => zkeep_body!(Option<ZstCache<'_, $m>>, $m, $z, $inc, $out),
            "box" => zkeep_body!(Box<ZstCache<'_, $m>>, $m, $z, $inc, $out),
            "vec" => zkeep_body!(Vec<ZstCache<'_, $m>>, $m, $z, $inc, $out),
            "tuple" => zkeep_body!((u8, ZstCache<'_, $m>), $m, $z, $inc, $out),
            _ => return false,
        }
    };
}

fn zkeep_z<Z: ZLike>(holder: &str, m: usize, inc: bool, out: &mut CaseOut) -> bool {
    match m {
        8 => zkeep_holders!(holder, 8, Z, inc, out),
        64 => zkeep_holders!(holder, 64, Z, inc, out),
        _ => return false,
    }
    true
}

/// `zkeep <holder> <align> <maxalign> <full|inc>`; false when the combination is not instantiated.
pub fn zkeep_case(holder: &str, align: usize, m: usize, inc: bool, out: &mut CaseOut) -> bool {
    match align {
        1 => zkeep_z::<G1>(holder, m, inc, out),
        4 => zkeep_z::<G4>(holder, m, inc, out),
        8 => zkeep_z::<G8>(holder, m, inc, out),
        16 => zkeep_z::<G16>(holder, m, inc, out),
        64 => zkeep_z::<G64>(holder, m, inc, out),
        _ => false,
    }
}
