//! gcverif-conv — conversion-identity correspondence harness for property C19 (dynamic half).
//!
//! Exercises the real gc-arena crate (path dependency on /repo's working tree): for every target
//! kind and every well-typed conversion chain it allocates a value, converts the pointer through
//! the real API in a chosen collector phase, roots the converted pointer (or the original, or
//! both, or a DynamicRoot handle), runs a collection schedule and observes identity, deref,
//! survival and exactly-once destruction as the original type.  Every case is printed as the
//! query line the Lean model driver (`convmodel`, lean/ConvMain.lean) understands, followed by the
//! observed answer in the driver's canonical format.
//!
//! Output protocol (stdout):
//!   `C <config>`          once, first
//!   `N <target> <len> <s|w> <count>`   number of well-typed chains the real API accepts
//!   `S <idx> <query>`     printed (and flushed) before the case runs
//!   `A <idx> <answer>`    the observed answer
//!   `M <idx> <text>`      zero or more implementation-side monitor failures
//!   `I <idx> <info>`      collector phase actually reached etc. (not compared)
//!   `E <idx>`             the case finished (absence = the process died in this case)
//!   `Z <cases run>`       last line
//!
//!   gcverif-conv [--tier quick|thorough] [--seed N] [--start IDX] [--only FILE] [--list]

mod alias;
mod run;
mod shape;
mod track;
mod types;
mod zst;

use run::*;
use shape::*;
use std::cell::RefCell;
use std::collections::HashSet;
use std::io::Write;
use std::panic::{AssertUnwindSafe, catch_unwind};

#[global_allocator]
static GLOBAL: track::Tracker = track::Tracker;

pub fn splitmix(state: &mut u64) -> u64 {
    *state = state.wrapping_add(0x9E37_79B9_7F4A_7C15);
    let mut z = *state;
    z = (z ^ (z >> 30)).wrapping_mul(0xBF58_476D_1CE4_E5B9);
    z = (z ^ (z >> 27)).wrapping_mul(0x94D0_49BB_1331_11EB);
    z ^ (z >> 31)
}

#[derive(Clone, Copy, PartialEq, Eq, Debug)]
enum Target {
    Sized,
    Array,
    Slice(usize),
    Str(usize),
    Swh(usize),
    Swa(usize),
    Dyn,
    Zst(usize),
    Zc,
}

impl Target {
    fn name(self) -> String {
        match self {
            Target::Sized => "sized".into(),
            Target::Array => format!("array:{}", types::ARRAY_N),
            Target::Slice(n) => format!("slice:{n}"),
            Target::Str(n) => format!("str:{n}"),
            Target::Swh(n) => format!("swh:{n}"),
            Target::Swa(n) => format!("swa:{n}"),
            Target::Dyn => "dyn".into(),
            Target::Zst(a) => format!("zst:{a}"),
            Target::Zc => "zc:8:16".into(),
        }
    }
    fn parse(s: &str) -> Option<Target> {
        let w: Vec<&str> = s.split(':').collect();
        match w.as_slice() {
            ["sized"] => Some(Target::Sized),
            ["dyn"] => Some(Target::Dyn),
            ["array", n] if n.parse() == Ok(types::ARRAY_N) => Some(Target::Array),
            ["slice", n] => n.parse().ok().map(Target::Slice),
            ["str", n] => n.parse().ok().map(Target::Str),
            ["swh", n] => n.parse().ok().map(Target::Swh),
            ["swa", n] => n.parse().ok().map(Target::Swa),
            ["zst", a] => a.parse().ok().filter(|a| [1, 2, 4, 8, 16, 32, 64].contains(a)).map(Target::Zst),
            ["zc", "8", "16"] => Some(Target::Zc),
            _ => None,
        }
    }
    fn n(self) -> usize {
        match self {
            Target::Slice(n) | Target::Str(n) | Target::Swh(n) | Target::Swa(n) => n,
            Target::Array => types::ARRAY_N,
            _ => 0,
        }
    }
    fn init_unsize(self) -> bool {
        self == Target::Dyn
    }
}

macro_rules! with_fam {
    ($t:expr, $f:ident, $body:expr) => {
        match $t {
            Target::Sized | Target::Dyn => {
                type $f = FPayload;
                $body
            }
            Target::Array => {
                type $f = FArr;
                $body
            }
            Target::Slice(_) => {
                type $f = FSlice;
                $body
            }
            Target::Str(_) => {
                type $f = FStr;
                $body
            }
            Target::Swh(_) => {
                type $f = FSwh;
                $body
            }
            Target::Swa(_) => {
                type $f = FSwa;
                $body
            }
            Target::Zst(1) => {
                type $f = FZ1;
                $body
            }
            Target::Zst(2) => {
                type $f = FZ2;
                $body
            }
            Target::Zst(4) => {
                type $f = FZ4;
                $body
            }
            Target::Zst(8) => {
                type $f = FZ8;
                $body
            }
            Target::Zst(16) => {
                type $f = FZ16;
                $body
            }
            Target::Zst(32) => {
                type $f = FZ32;
                $body
            }
            Target::Zst(_) => {
                type $f = FZ64;
                $body
            }
            Target::Zc => {
                type $f = FZC8;
                $body
            }
        }
    };
}

thread_local! {
    static PANIC_MSG: RefCell<String> = const { RefCell::new(String::new()) };
}

struct Cx {
    thorough: bool,
    seed: u64,
    idx: usize,
    start: usize,
    only: Option<HashSet<String>>,
    list_only: bool,
    ran: usize,
    rng: u64,
    out: std::io::BufWriter<std::io::Stdout>,
}

fn normalise(q: &str) -> String {
    q.split_whitespace().collect::<Vec<_>>().join(" ")
}

impl Cx {
    fn run(&mut self, query: String, f: impl FnOnce(&mut CaseOut)) {
        self.idx += 1;
        if self.idx <= self.start {
            return;
        }
        if let Some(only) = &self.only {
            if !only.contains(&normalise(&query)) {
                return;
            }
        }
        let idx = self.idx;
        let _ = writeln!(self.out, "S {idx} {query}");
        let _ = self.out.flush();
        if self.list_only {
            let _ = writeln!(self.out, "E {idx}");
            return;
        }
        self.ran += 1;
        let mut out = CaseOut::default();
        let r = catch_unwind(AssertUnwindSafe(|| f(&mut out)));
        if r.is_err() {
            let msg = PANIC_MSG.with(|m| m.borrow().clone());
            out.monitors.push(format!("panic escaped the case: {msg}"));
        }
        let l = &mut self.out;
        let _ = writeln!(l, "A {idx} {}", out.answer.as_deref().unwrap_or("no-answer"));
        for m in &out.monitors {
            let _ = writeln!(l, "M {idx} {}", m.replace('\n', " "));
        }
        if !out.info.is_empty() {
            let _ = writeln!(l, "I {idx} {}", out.info);
        }
        let _ = writeln!(l, "E {idx}");
    }
}

#[derive(Clone, Copy)]
struct Combo {
    placement: Placement,
    sched: Sched,
    phase: Phase,
    age: Age,
}

fn combos(init_weak: bool, stashable: bool) -> Vec<Combo> {
    let ages: &[Age] = if init_weak { &[Age::Ww] } else { &[Age::Fresh, Age::Black] };
    let mut v = Vec::new();
    for &age in ages {
        for phase in Phase::ALL {
            for sched in Sched::ALL {
                for placement in Placement::ALL {
                    if placement == Placement::Dyn && !stashable {
                        continue;
                    }
                    v.push(Combo { placement, sched, phase, age });
                }
            }
        }
    }
    v
}

fn case_query(t: Target, chain: &[Step], c: &Combo) -> String {
    format!("case {} {} {} {} {} {}", t.name(), chain_str(chain), c.placement.name(), c.sched.name(), c.phase.name(), c.age.name())
}

fn run_one(cx: &mut Cx, t: Target, chain: &[Step], c: Combo) {
    let spec = Spec { chain: chain.to_vec(), placement: c.placement, sched: c.sched, phase: c.phase, age: c.age, n: t.n(), init_unsize: t.init_unsize() };
    cx.run(case_query(t, chain, &c), |out| with_fam!(t, F, run_case::<F>(&spec, out)));
}

/// How many of the combinations a chain of this length gets.
fn budget(thorough: bool, main_target: bool, len: usize) -> usize {
    match (thorough, len) {
        (_, 0..=2) => usize::MAX,
        (false, 3) => {
            if main_target { 10 } else { 4 }
        }
        (false, _) => {
            if main_target { 4 } else { 1 }
        }
        (true, 3) => usize::MAX,
        (true, _) => {
            if main_target { 16 } else { 6 }
        }
    }
}

fn target_cases(cx: &mut Cx, t: Target, main_target: bool, maxlen: usize) {
    for init_weak in [false, true] {
        let sw = if init_weak { "w" } else { "s" };
        // the enumeration executes the conversions: guard it like a case
        let en = catch_unwind(AssertUnwindSafe(|| with_fam!(t, F, enumerate::<F>(t.n(), init_weak, t.init_unsize(), maxlen, 2))));
        let status = match &en {
            Ok(_) => None,
            Err(_) => Some(PANIC_MSG.with(|m| m.borrow().clone())),
        };
        cx.run(format!("enum {} {}", t.name(), sw), |out| {
            out.answer = Some(if status.is_none() { "enum ok".into() } else { "enum panic".into() });
            if let Some(m) = &status {
                out.monitors.push(format!("enumerating the chains the API accepts panicked: {m}"));
            }
        });
        let Ok(en) = en else { continue };
        for (len, v) in en.by_len.iter().enumerate() {
            let _ = writeln!(cx.out, "N {} {} {} {}", t.name(), len, sw, v.len());
        }
        // chains that produce a pointer to another address: run each once, as a case
        for ch in &en.moved {
            let age = if init_weak { Age::Ww } else { Age::Fresh };
            run_one(cx, t, ch, Combo { placement: Placement::Conv, sched: Sched::Full, phase: Phase::Sleep, age });
        }
        for ch in &en.ill {
            let k = ch.len() - 1;
            let q = format!("ill {} {} {}", t.name(), chain_str(ch), sw);
            cx.run(q, |out| out.answer = Some(format!("ill-typed {k}")));
        }
        let mut ci: u64 = 0;
        for (len, v) in en.by_len.iter().enumerate() {
            let b = budget(cx.thorough, main_target, len);
            for info in v {
                ci += 1;
                let all = combos(init_weak, info.stashable);
                if b >= all.len() {
                    for c in all {
                        run_one(cx, t, &info.chain, c);
                    }
                } else {
                    let mut st = cx.seed.wrapping_mul(0x1000_0000_01B3).wrapping_add(ci.wrapping_mul(0x9E37_79B9)) ^ (len as u64) << 56;
                    let mut picked: Vec<usize> = Vec::new();
                    while picked.len() < b {
                        let j = (splitmix(&mut st) % all.len() as u64) as usize;
                        if !picked.contains(&j) {
                            picked.push(j);
                        }
                    }
                    for j in picked {
                        run_one(cx, t, &info.chain, all[j]);
                    }
                }
            }
        }
        if cx.thorough {
            // random longer chains
            let count = if main_target { 1500 } else { 300 };
            for _ in 0..count {
                let len = 5 + (splitmix(&mut cx.rng) % 8) as usize;
                let mut r = cx.rng;
                let info = with_fam!(t, F, random_chain::<F>(t.n(), init_weak, t.init_unsize(), len, &mut r));
                cx.rng = r;
                let all = combos(init_weak, info.stashable);
                let j = (splitmix(&mut cx.rng) % all.len() as u64) as usize;
                run_one(cx, t, &info.chain, all[j]);
            }
        }
    }
}

fn zst_grid(cx: &mut Cx) {
    use zst::*;
    macro_rules! grid {
        ([$($z:ident),*], $ms:tt) => {$( grid!(@m $z, $ms); )*};
        (@m $z:ident, [$($m:literal),*]) => {$(
            for method in ["alloc", "alloc_static"] {
                cx.run(query::<$z, $m>(method), |out| zst_case::<$z, $m>(method, out));
            }
        )*};
    }
    grid!([G1, G2, G4, G8, G16, G32, G64, N1, N2, N4, N8, N16, N32, N64], [1, 2, 4, 8, 16, 32, 64, 128, 4096]);
}

fn zkeep_grid(cx: &mut Cx) {
    for holder in zst::HOLDERS {
        for align in [1usize, 4, 8, 16, 64] {
            for m in [8usize, 64] {
                for sched in ["full", "inc"] {
                    cx.run(format!("zkeep {holder} {align} {m} {sched}"), |out| {
                        if !zst::zkeep_case(holder, align, m, sched == "inc", out) {
                            out.answer = Some("not-instantiated".into());
                        }
                    });
                }
            }
        }
    }
}

fn alias_grid(cx: &mut Cx) {
    use alias::*;
    let chains = grid_chains();
    let mut pairs: Vec<(&str, &str)> = Vec::new();
    for a in DYN_TYPES {
        for b in DYN_TYPES {
            if a != b {
                pairs.push((a, b));
            }
        }
    }
    pairs.push(("u:2", "u:3"));
    pairs.push(("u:3", "u:2"));
    let mut k: u64 = cx.seed;
    for (a, b) in pairs {
        for m in MAXES {
            for rel in Rel::ALL {
                for (i, c1) in chains.iter().enumerate() {
                    for (j, c2) in chains.iter().enumerate() {
                        // quick: every chain against itself and against a rotating third of the others
                        k = k.wrapping_add(1);
                        if !cx.thorough && i != j && (i + j + k as usize) % 3 != 0 {
                            continue;
                        }
                        cx.run(alias_query(m, a, b, rel, c1, c2), |out| {
                            if !alias_case(m, a, b, rel, c1, c2, out) {
                                out.answer = Some("not-instantiated".into());
                            }
                        });
                    }
                }
            }
        }
    }
    for (n, kk) in [(5, 2), (5, 0), (5, 5), (1, 0), (300, 255), (300, 1), (2, 1)] {
        cx.run(format!("prefix {n} {kk}"), |out| prefix_case(n, kk, out));
    }
}

/// Run a single query line (replay).
fn run_query(cx: &mut Cx, q: &str) {
    let w: Vec<&str> = q.split_whitespace().collect();
    match w.as_slice() {
        ["case", t, ch, pl, sc, ph, age] => {
            let (Some(t), Some(chain)) = (Target::parse(t), parse_chain(ch)) else { return };
            let placement = Placement::ALL.iter().copied().find(|p| p.name() == *pl);
            let sched = Sched::ALL.iter().copied().find(|p| p.name() == *sc);
            let phase = Phase::ALL.iter().copied().find(|p| p.name() == *ph);
            let age = [Age::Fresh, Age::Black, Age::Ww].iter().copied().find(|p| p.name() == *age);
            if let (Some(placement), Some(sched), Some(phase), Some(age)) = (placement, sched, phase, age) {
                run_one(cx, t, &chain, Combo { placement, sched, phase, age });
            }
        }
        ["alias", m, t1, t2, rel, c1, c2] => {
            let rel = alias::Rel::ALL.iter().copied().find(|r| r.name() == *rel);
            if let (Ok(m), Some(rel), Some(c1), Some(c2)) = (m.parse::<usize>(), rel, parse_chain(c1), parse_chain(c2)) {
                let (t1, t2) = (t1.to_string(), t2.to_string());
                cx.run(alias::alias_query(m, &t1, &t2, rel, &c1, &c2), |out| {
                    if !alias::alias_case(m, &t1, &t2, rel, &c1, &c2, out) {
                        out.answer = Some("not-instantiated".into());
                    }
                });
            }
        }
        ["zkeep", holder, align, m, sched] => {
            if let (Ok(align), Ok(m)) = (align.parse::<usize>(), m.parse::<usize>()) {
                let (holder, inc) = (holder.to_string(), *sched == "inc");
                cx.run(format!("zkeep {holder} {align} {m} {sched}"), |out| {
                    if !zst::zkeep_case(&holder, align, m, inc, out) {
                        out.answer = Some("not-instantiated".into());
                    }
                });
            }
        }
        ["prefix", n, k] => {
            if let (Ok(n), Ok(k)) = (n.parse::<usize>(), k.parse::<usize>()) {
                if k <= n && n <= 4096 {
                    cx.run(format!("prefix {n} {k}"), |out| alias::prefix_case(n, k, out));
                }
            }
        }
        _ => {}
    }
}

fn main() {
    let args: Vec<String> = std::env::args().collect();
    let mut cx = Cx {
        thorough: false,
        seed: 1,
        idx: 0,
        start: 0,
        only: None,
        list_only: false,
        ran: 0,
        rng: 0,
        out: std::io::BufWriter::with_capacity(1 << 20, std::io::stdout()),
    };
    let mut replay: Option<Vec<String>> = None;
    let mut i = 1;
    while i < args.len() {
        let val = |i: usize| args.get(i + 1).cloned().unwrap_or_default();
        match args[i].as_str() {
            "--tier" => {
                cx.thorough = val(i) == "thorough";
                i += 1;
            }
            "--seed" => {
                cx.seed = val(i).parse().unwrap_or(1);
                i += 1;
            }
            "--start" => {
                cx.start = val(i).parse().unwrap_or(0);
                i += 1;
            }
            "--only" | "--replay" => {
                let text = std::fs::read_to_string(val(i)).unwrap_or_default();
                let lines: Vec<String> =
                    text.lines().map(|l| l.trim()).filter(|l| !l.is_empty() && !l.starts_with('#') && !l.starts_with("config")).map(normalise).collect();
                if args[i] == "--only" {
                    cx.only = Some(lines.into_iter().collect());
                } else {
                    replay = Some(lines);
                }
                i += 1;
            }
            "--list" => cx.list_only = true,
            other => {
                eprintln!("unknown argument {other}");
                std::process::exit(2);
            }
        }
        i += 1;
    }
    cx.rng = cx.seed.wrapping_mul(0x9E37_79B9_7F4A_7C15) ^ 0xC19;
    std::panic::set_hook(Box::new(|info| {
        let msg = if let Some(s) = info.payload().downcast_ref::<&str>() {
            s.to_string()
        } else if let Some(s) = info.payload().downcast_ref::<String>() {
            s.clone()
        } else {
            "<non-string panic payload>".to_string()
        };
        let loc = info.location().map(|l| format!(" at {}:{}", l.file(), l.line())).unwrap_or_default();
        PANIC_MSG.with(|m| *m.borrow_mut() = format!("{msg}{loc}"));
    }));
    let _ = writeln!(cx.out, "C config conv word={} array={}", std::mem::size_of::<usize>(), types::ARRAY_N);
    if let Some(lines) = replay {
        // run exactly the given case lines, whatever the tier's grid contains
        for q in lines {
            run_query(&mut cx, &q);
        }
        // the zst lines of a replay are found in the grid
        let only: HashSet<String> = std::fs::read_to_string(args.iter().skip_while(|a| *a != "--replay").nth(1).cloned().unwrap_or_default())
            .unwrap_or_default()
            .lines()
            .map(normalise)
            .filter(|l| l.starts_with("zst "))
            .collect();
        if !only.is_empty() {
            cx.only = Some(only);
            zst_grid(&mut cx);
        }
    } else {
        zst_grid(&mut cx);
        zkeep_grid(&mut cx);
        alias_grid(&mut cx);
        let main_targets = [Target::Sized, Target::Dyn, Target::Array, Target::Slice(3), Target::Str(5)];
        for t in main_targets {
            target_cases(&mut cx, t, true, 4);
        }
        let mut others = vec![Target::Slice(0), Target::Str(0), Target::Swh(2), Target::Swh(0), Target::Swa(3), Target::Swa(0), Target::Zc];
        for a in [1, 2, 4, 8, 16, 32, 64] {
            others.push(Target::Zst(a));
        }
        if cx.thorough {
            others.extend([Target::Slice(1), Target::Slice(17), Target::Str(1), Target::Str(64)]);
        }
        for t in others {
            target_cases(&mut cx, t, false, 4);
        }
        // lengths that do not fit in a byte: short chains only (every element logs its destructor)
        let long_maxlen = if cx.thorough { 3 } else { 2 };
        for t in [Target::Slice(300), Target::Str(300)] {
            target_cases(&mut cx, t, false, long_maxlen);
        }
    }
    let _ = writeln!(cx.out, "Z {}", cx.ran);
    let _ = cx.out.flush();
}
