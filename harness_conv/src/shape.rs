//! Pointer shapes and the conversion steps, executed through the real API.
//!
//! `Sh<'gc, T>` has one variant per Rust type a pointer to an allocation of type `T` can have in
//! this harness; `step` applies one conversion and answers `Ill` when the real signature does not
//! accept the shape (there is then simply no code that could be written for that arm).

use crate::types::{Exp, Tgt, stash_handle_unit, stash_rt_unit};
use gc_arena::gc::{Fat, GcKind, Thin};
use gc_arena::meta::UnitPtrMeta;
use gc_arena::{Collect, DynamicRootSet, Gc, GcFat, GcThin, GcWeak, Mutation, collect::Trace};
use std::mem::size_of;

pub type KFat<P> = GcKind<Fat, (), P>;
pub type KThin<P> = GcKind<Thin, (), P>;

pub trait Handle {
    /// Fetch through the handle: (address of the fetched pointer, result of reading the value).
    fn observe<'gc>(&self, set: DynamicRootSet<'gc>, e: &Exp) -> (usize, Result<(), String>);
}

#[derive(Clone, Copy, Debug, PartialEq, Eq)]
pub enum Step {
    Copy,
    Erase,
    EraseKind,
    Cast,
    FromThin,
    AsThin,
    AsFat,
    Ptr,
    PtrKind,
    ThinPtr,
    Unsize,
    Downgrade,
    Upgrade,
    Stash,
}

impl Step {
    /// Same order as `Step.all` of the Lean model.
    pub const ALL: [Step; 14] = [
        Step::Copy,
        Step::Erase,
        Step::EraseKind,
        Step::Cast,
        Step::FromThin,
        Step::AsThin,
        Step::AsFat,
        Step::Ptr,
        Step::PtrKind,
        Step::ThinPtr,
        Step::Unsize,
        Step::Downgrade,
        Step::Upgrade,
        Step::Stash,
    ];
    pub fn name(self) -> &'static str {
        match self {
            Step::Copy => "copy",
            Step::Erase => "erase",
            Step::EraseKind => "erase_kind",
            Step::Cast => "cast",
            Step::FromThin => "from_thin",
            Step::AsThin => "as_thin",
            Step::AsFat => "as_fat",
            Step::Ptr => "ptr",
            Step::PtrKind => "ptr_kind",
            Step::ThinPtr => "thin_ptr",
            Step::Unsize => "unsize",
            Step::Downgrade => "downgrade",
            Step::Upgrade => "upgrade",
            Step::Stash => "stash",
        }
    }
    pub fn parse(s: &str) -> Option<Step> {
        Step::ALL.iter().copied().find(|x| x.name() == s)
    }
}

pub fn chain_str(ch: &[Step]) -> String {
    if ch.is_empty() { "-".to_string() } else { ch.iter().map(|s| s.name()).collect::<Vec<_>>().join(",") }
}

pub fn parse_chain(s: &str) -> Option<Vec<Step>> {
    if s == "-" { Some(vec![]) } else { s.split(',').map(Step::parse).collect() }
}

pub enum Sh<'gc, T: ?Sized + Tgt<'gc>> {
    /// the kind the value was allocated with (`Gc<T>` for sized targets, `GcSlice` / `GcStr`)
    Fat(GcFat<'gc, T, (), T::P>),
    Thin(GcThin<'gc, T, (), T::P>),
    /// default kind, allocated type (only distinct from `Fat` for `[E]` / `str`)
    Def(Gc<'gc, T>),
    Unit(Gc<'gc, ()>),
    UnitThin(GcThin<'gc, (), (), UnitPtrMeta>),
    Uns(Gc<'gc, T::U>),
    WFat(GcWeak<'gc, T, KFat<T::P>>),
    WThin(GcWeak<'gc, T, KThin<T::P>>),
    WDef(GcWeak<'gc, T>),
    WUnit(GcWeak<'gc, ()>),
    WUnitThin(GcWeak<'gc, (), KThin<UnitPtrMeta>>),
    WUns(GcWeak<'gc, T::U>),
}

impl<'gc, T: ?Sized + Tgt<'gc>> Clone for Sh<'gc, T> {
    fn clone(&self) -> Self {
        *self
    }
}
impl<'gc, T: ?Sized + Tgt<'gc>> Copy for Sh<'gc, T> {}

/// Hand-written `Collect`: every variant holds exactly one pointer, traced as what it is.
unsafe impl<'gc, T: ?Sized + Tgt<'gc>> Collect<'gc> for Sh<'gc, T> {
    fn trace<C: Trace<'gc>>(&self, cc: &mut C) {
        match self {
            Sh::Fat(p) => cc.trace(p),
            Sh::Thin(p) => cc.trace(p),
            Sh::Def(p) => cc.trace(p),
            Sh::Unit(p) => cc.trace(p),
            Sh::UnitThin(p) => cc.trace(p),
            Sh::Uns(p) => cc.trace(p),
            Sh::WFat(p) => cc.trace(p),
            Sh::WThin(p) => cc.trace(p),
            Sh::WDef(p) => cc.trace(p),
            Sh::WUnit(p) => cc.trace(p),
            Sh::WUnitThin(p) => cc.trace(p),
            Sh::WUns(p) => cc.trace(p),
        }
    }
}

pub enum StepRes<'gc, T: ?Sized + Tgt<'gc>> {
    Ok(Sh<'gc, T>),
    Ill,
    UpgradeNone,
}

macro_rules! each_strong {
    ($sh:expr, $p:ident => $e:expr, else $other:expr) => {
        match $sh {
            Sh::Fat($p) => $e,
            Sh::Thin($p) => $e,
            Sh::Def($p) => $e,
            Sh::Unit($p) => $e,
            Sh::UnitThin($p) => $e,
            Sh::Uns($p) => $e,
            _ => $other,
        }
    };
}

macro_rules! each_weak {
    ($sh:expr, $p:ident => $e:expr, else $other:expr) => {
        match $sh {
            Sh::WFat($p) => $e,
            Sh::WThin($p) => $e,
            Sh::WDef($p) => $e,
            Sh::WUnit($p) => $e,
            Sh::WUnitThin($p) => $e,
            Sh::WUns($p) => $e,
            _ => $other,
        }
    };
}

impl<'gc, T: ?Sized + Tgt<'gc>> Sh<'gc, T> {
    pub fn is_weak(&self) -> bool {
        matches!(self, Sh::WFat(_) | Sh::WThin(_) | Sh::WDef(_) | Sh::WUnit(_) | Sh::WUnitThin(_) | Sh::WUns(_))
    }

    /// Address `as_ptr` reports (the fat pointer's address part).
    pub fn addr(&self) -> usize {
        each_strong!(*self, p => Gc::as_ptr(p) as *const () as usize,
            else each_weak!(*self, w => GcWeak::as_ptr(w) as *const () as usize, else unreachable!()))
    }

    /// Address actually stored in a thin pointer.
    pub fn stored_thin_addr(&self) -> Option<usize> {
        match *self {
            Sh::Thin(p) => {
                let a = Gc::as_thin_ptr(p) as usize;
                let r = Gc::as_thin_ref(p) as *const T::Th as usize;
                Some(if r == a { a } else { r })
            }
            Sh::UnitThin(p) => Some(Gc::as_thin_ptr(p) as usize),
            _ => None,
        }
    }

    pub fn erased(&self) -> Result<Gc<'gc, ()>, GcWeak<'gc, ()>> {
        each_strong!(*self, p => Ok(Gc::erase(p)),
            else each_weak!(*self, w => Err(GcWeak::erase(w)), else unreachable!()))
    }

    pub fn is_dropped(&self) -> Option<bool> {
        each_weak!(*self, w => Some(w.is_dropped()), else None)
    }

    /// `upgrade` of a weak shape (no side effect on the collector).
    pub fn try_upgrade(&self, mc: &Mutation<'gc>) -> Option<Option<Sh<'gc, T>>> {
        match *self {
            Sh::WFat(w) => Some(w.upgrade(mc).map(Sh::Fat)),
            Sh::WThin(w) => Some(w.upgrade(mc).map(Sh::Thin)),
            Sh::WDef(w) => Some(w.upgrade(mc).map(Sh::Def)),
            Sh::WUnit(w) => Some(w.upgrade(mc).map(Sh::Unit)),
            Sh::WUnitThin(w) => Some(w.upgrade(mc).map(Sh::UnitThin)),
            Sh::WUns(w) => Some(w.upgrade(mc).map(Sh::Uns)),
            _ => None,
        }
    }

    /// `<s|w>/<thin|fat>/<unit|slice|str>/<orig|unit|uns>`
    pub fn tags(&self) -> String {
        let (thin, pm, ty) = match self {
            Sh::Fat(_) | Sh::WFat(_) => ("fat", T::PNAME, "orig"),
            Sh::Thin(_) | Sh::WThin(_) => ("thin", T::PNAME, "orig"),
            Sh::Def(_) | Sh::WDef(_) => ("fat", "unit", "orig"),
            Sh::Unit(_) | Sh::WUnit(_) => ("fat", "unit", "unit"),
            Sh::UnitThin(_) | Sh::WUnitThin(_) => ("thin", "unit", "unit"),
            Sh::Uns(_) | Sh::WUns(_) => ("fat", "unit", "uns"),
        };
        format!("{}/{}/{}/{}", if self.is_weak() { "w" } else { "s" }, thin, pm, ty)
    }

    /// Size of the pointer value in machine words.
    pub fn words(&self) -> usize {
        let b = match self {
            Sh::Fat(_) => size_of::<GcFat<'gc, T, (), T::P>>(),
            Sh::Thin(_) => size_of::<GcThin<'gc, T, (), T::P>>(),
            Sh::Def(_) => size_of::<Gc<'gc, T>>(),
            Sh::Unit(_) => size_of::<Gc<'gc, ()>>(),
            Sh::UnitThin(_) => size_of::<GcThin<'gc, (), (), UnitPtrMeta>>(),
            Sh::Uns(_) => size_of::<Gc<'gc, T::U>>(),
            Sh::WFat(_) => size_of::<GcWeak<'gc, T, KFat<T::P>>>(),
            Sh::WThin(_) => size_of::<GcWeak<'gc, T, KThin<T::P>>>(),
            Sh::WDef(_) => size_of::<GcWeak<'gc, T>>(),
            Sh::WUnit(_) => size_of::<GcWeak<'gc, ()>>(),
            Sh::WUnitThin(_) => size_of::<GcWeak<'gc, (), KThin<UnitPtrMeta>>>(),
            Sh::WUns(_) => size_of::<GcWeak<'gc, T::U>>(),
        };
        b / size_of::<usize>()
    }

    /// Metadata `as_ptr` reports: a length, `vt`, or `-`.
    pub fn dlen(&self) -> String {
        match *self {
            Sh::Fat(p) => T::dlen(Gc::as_ptr(p)),
            Sh::Thin(p) => T::dlen(Gc::as_ptr(p)),
            Sh::Def(p) => T::dlen(Gc::as_ptr(p)),
            Sh::Uns(p) => T::dlen_u(Gc::as_ptr(p)),
            Sh::WFat(p) => T::dlen(GcWeak::as_ptr(p)),
            Sh::WThin(p) => T::dlen(GcWeak::as_ptr(p)),
            Sh::WDef(p) => T::dlen(GcWeak::as_ptr(p)),
            Sh::WUns(p) => T::dlen_u(GcWeak::as_ptr(p)),
            Sh::Unit(_) | Sh::UnitThin(_) | Sh::WUnit(_) | Sh::WUnitThin(_) => "-".to_string(),
        }
    }

    /// Dereference a strong shape and compare with the original value.
    pub fn check_deref(&self, e: &Exp) -> Result<(), String> {
        match self {
            Sh::Fat(p) => T::check(&**p, e),
            Sh::Thin(p) => T::check(&**p, e),
            Sh::Def(p) => T::check(&**p, e),
            Sh::Uns(p) => T::check_u(&**p, e),
            Sh::Unit(p) => {
                let r: &() = &**p;
                if std::mem::size_of_val(r) == 0 { Ok(()) } else { Err("unit deref".into()) }
            }
            Sh::UnitThin(p) => {
                let r: &() = &**p;
                if std::mem::size_of_val(r) == 0 { Ok(()) } else { Err("unit deref".into()) }
            }
            _ => Err("check_deref on a weak shape".into()),
        }
    }
}

/// One conversion through the real API.
pub fn step<'gc, T: ?Sized + Tgt<'gc>>(
    mc: &Mutation<'gc>,
    set: DynamicRootSet<'gc>,
    st: Step,
    sh: Sh<'gc, T>,
) -> StepRes<'gc, T> {
    use Sh::*;
    let r: Option<Sh<'gc, T>> = match st {
        Step::Copy => Some(match sh {
            Fat(p) => {
                let q = p;
                Fat(Clone::clone(&q))
            }
            Thin(p) => Thin(Clone::clone(&p)),
            Def(p) => Def(Clone::clone(&p)),
            Unit(p) => Unit(Clone::clone(&p)),
            UnitThin(p) => UnitThin(Clone::clone(&p)),
            Uns(p) => Uns(Clone::clone(&p)),
            WFat(p) => WFat(Clone::clone(&p)),
            WThin(p) => WThin(Clone::clone(&p)),
            WDef(p) => WDef(Clone::clone(&p)),
            WUnit(p) => WUnit(Clone::clone(&p)),
            WUnitThin(p) => WUnitThin(Clone::clone(&p)),
            WUns(p) => WUns(Clone::clone(&p)),
        }),
        Step::Erase => Some(each_strong!(sh, p => Unit(Gc::erase(p)),
            else each_weak!(sh, w => WUnit(GcWeak::erase(w)), else unreachable!()))),
        Step::EraseKind => match sh {
            Fat(p) => Some(T::from_def(Gc::erase_kind(p))),
            Def(p) => Some(Def(Gc::erase_kind(p))),
            Unit(p) => Some(Unit(Gc::erase_kind(p))),
            Uns(p) => Some(Uns(Gc::erase_kind(p))),
            _ => None, // no `erase_kind` on thin kinds or on `GcWeak`
        },
        Step::Cast => match sh {
            // `cast` exists on fat kinds only; the kind's `P` is kept, so only default-kind
            // pointers (and the sized targets' own kind, which is the default one) qualify here
            Fat(p) => T::cast_own(p),
            Def(p) => T::cast_s(p),
            Unit(p) => T::cast_s(p),
            Uns(p) => T::cast_s(p),
            WFat(w) => T::cast_own_w(w),
            WDef(w) => T::cast_w(w),
            WUnit(w) => T::cast_w(w),
            WUns(w) => T::cast_w(w),
            _ => None,
        },
        Step::FromThin => match sh {
            // SAFETY: the pointer came from `as_ptr` of a pointer to this allocation, whose
            // header holds the metadata `T::P` expects
            Unit(p) => Some(Thin(unsafe { Gc::<T, KThin<T::P>>::from_thin_ptr_with_kind(Gc::as_ptr(p) as *const T::Th) })),
            UnitThin(p) => Some(Thin(unsafe { Gc::<T, KThin<T::P>>::from_thin_ptr_with_kind(Gc::as_thin_ptr(p) as *const T::Th) })),
            _ => None,
        },
        Step::AsThin => match sh {
            Fat(p) => Some(Thin(Gc::as_thin(p))),
            Unit(p) => Some(UnitThin(Gc::as_thin(p))),
            _ => None, // `Def` of `[E]` / `str` and `Uns`: `UnitPtrMeta` is no `PtrMeta` for unsized types
        },
        Step::AsFat => match sh {
            Thin(p) => Some(Fat(Gc::as_fat(p))),
            UnitThin(p) => Some(Unit(Gc::as_fat(p))),
            _ => None,
        },
        // SAFETY (all `from_ptr*`): the raw pointer was just obtained from `as_ptr` of a pointer to
        // an allocation that is still allocated, and the kind is the one it came with or the default
        Step::Ptr => Some(unsafe {
            match sh {
                Fat(p) => T::from_def(Gc::from_ptr(Gc::as_ptr(p))),
                Thin(p) => T::from_def(Gc::from_ptr(Gc::as_ptr(p))),
                Def(p) => Def(Gc::from_ptr(Gc::as_ptr(p))),
                Unit(p) => Unit(Gc::from_ptr(Gc::as_ptr(p))),
                UnitThin(p) => Unit(Gc::from_ptr(Gc::as_ptr(p))),
                Uns(p) => Uns(Gc::from_ptr(Gc::as_ptr(p))),
                WFat(w) => T::from_def_w(GcWeak::from_ptr(GcWeak::as_ptr(w))),
                WThin(w) => T::from_def_w(GcWeak::from_ptr(GcWeak::as_ptr(w))),
                WDef(w) => WDef(GcWeak::from_ptr(GcWeak::as_ptr(w))),
                WUnit(w) => WUnit(GcWeak::from_ptr(GcWeak::as_ptr(w))),
                WUnitThin(w) => WUnit(GcWeak::from_ptr(GcWeak::as_ptr(w))),
                WUns(w) => WUns(GcWeak::from_ptr(GcWeak::as_ptr(w))),
            }
        }),
        Step::PtrKind => Some(unsafe {
            match sh {
                Fat(p) => Fat(Gc::from_ptr_with_kind(Gc::as_ptr(p))),
                Thin(p) => Thin(Gc::from_ptr_with_kind(Gc::as_ptr(p))),
                Def(p) => Def(Gc::from_ptr_with_kind(Gc::as_ptr(p))),
                Unit(p) => Unit(Gc::from_ptr_with_kind(Gc::as_ptr(p))),
                UnitThin(p) => UnitThin(Gc::from_ptr_with_kind(Gc::as_ptr(p))),
                Uns(p) => Uns(Gc::from_ptr_with_kind(Gc::as_ptr(p))),
                WFat(w) => WFat(GcWeak::from_ptr_with_kind(GcWeak::as_ptr(w))),
                WThin(w) => WThin(GcWeak::from_ptr_with_kind(GcWeak::as_ptr(w))),
                WDef(w) => WDef(GcWeak::from_ptr_with_kind(GcWeak::as_ptr(w))),
                WUnit(w) => WUnit(GcWeak::from_ptr_with_kind(GcWeak::as_ptr(w))),
                WUnitThin(w) => WUnitThin(GcWeak::from_ptr_with_kind(GcWeak::as_ptr(w))),
                WUns(w) => WUns(GcWeak::from_ptr_with_kind(GcWeak::as_ptr(w))),
            }
        }),
        Step::ThinPtr => match sh {
            Thin(p) => Some(Thin(unsafe { Gc::from_thin_ptr_with_kind(Gc::as_thin_ptr(p)) })),
            UnitThin(p) => Some(UnitThin(unsafe { Gc::from_thin_ptr_with_kind(Gc::as_thin_ptr(p)) })),
            _ => None,
        },
        Step::Unsize => T::unsize(&sh),
        Step::Downgrade => match sh {
            Fat(p) => Some(WFat(Gc::downgrade(p))),
            Thin(p) => Some(WThin(Gc::downgrade(p))),
            Def(p) => Some(WDef(Gc::downgrade(p))),
            Unit(p) => Some(WUnit(Gc::downgrade(p))),
            UnitThin(p) => Some(WUnitThin(Gc::downgrade(p))),
            Uns(p) => Some(WUns(Gc::downgrade(p))),
            _ => None,
        },
        Step::Upgrade => match sh.try_upgrade(mc) {
            None => None,
            Some(None) => return StepRes::UpgradeNone,
            Some(Some(q)) => Some(q),
        },
        Step::Stash => match sh {
            Unit(p) => Some(Unit(stash_rt_unit(set, mc, p))),
            _ => T::stash_fetch(set, mc, &sh),
        },
    };
    match r {
        Some(q) => StepRes::Ok(q),
        None => StepRes::Ill,
    }
}

/// Can the shape be stashed (default-kind strong pointer)?  Decided by executing `stash`.
pub fn stash_handle<'gc, T: ?Sized + Tgt<'gc>>(
    set: DynamicRootSet<'gc>,
    mc: &Mutation<'gc>,
    sh: &Sh<'gc, T>,
) -> Option<Box<dyn Handle>> {
    match *sh {
        Sh::Unit(p) => Some(stash_handle_unit(set, mc, p)),
        _ => T::stash_handle(set, mc, sh),
    }
}
