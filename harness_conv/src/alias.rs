//! `ptr_eq` on pointers that alias one block with different metadata.
//!
//! * `alias <M> <t1> <t2> <same|diff|fresh> <chain1> <chain2>`: two zero-sized values of
//!   *different* types from `ZstCache<M>`s (the same cache, two caches, or the second one from
//!   `Gc::new`), each converted by its chain; when both chains end in the same Rust type (`dyn Tr`,
//!   `[()]`, `()`, strong or weak, thin or fat) the two are compared with `Gc::ptr_eq` /
//!   `GcWeak::ptr_eq` (`eq`), and always after `erase` (`eeq`).
//! * `prefix <n> <k>`: `Gc::from_ptr` of a shorter `[u8]` prefix of the same allocation.

use crate::run::CaseOut;
use crate::shape::*;
use crate::types::*;
use gc_arena::zst_cache::{Alignment, ValidAlignment, ZstCache};
use gc_arena::{Arena, Collect, DynamicRootSet, Gc, GcSlice, GcWeak, Mutation, Rootable};

#[derive(Clone, Copy, PartialEq, Eq, Debug)]
pub enum Rel {
    Same,
    Diff,
    Fresh,
}

impl Rel {
    pub const ALL: [Rel; 3] = [Rel::Same, Rel::Diff, Rel::Fresh];
    pub fn name(self) -> &'static str {
        match self {
            Rel::Same => "same",
            Rel::Diff => "diff",
            Rel::Fresh => "fresh",
        }
    }
}

/// Conversion chains of the grid (those ending in `unsize` / `erase` give comparable types).
pub fn grid_chains() -> Vec<Vec<Step>> {
    use Step::*;
    vec![
        vec![Unsize],
        vec![AsThin, Unsize],
        vec![Unsize, EraseKind],
        vec![Unsize, Ptr],
        vec![Unsize, PtrKind],
        vec![Downgrade, Unsize, Upgrade],
        vec![Unsize, Stash],
        vec![Cast, Unsize],
        vec![Copy, Unsize],
        vec![Unsize, Downgrade],
        vec![Downgrade, Unsize],
        vec![Unsize, Downgrade, Ptr],
        vec![Erase],
        vec![Unsize, Erase],
        vec![Erase, AsThin],
        vec![Erase, Downgrade],
    ]
}

fn side<'gc, T: Tgt<'gc> + ZMake + Collect<'gc>, const M: usize>(
    mc: &Mutation<'gc>,
    set: DynamicRootSet<'gc>,
    cache: Option<&ZstCache<'gc, M>>,
    chain: &[Step],
    which: usize,
) -> Result<Sh<'gc, T>, String>
where
    Alignment<M>: ValidAlignment,
{
    let p: Gc<'gc, T> = match cache {
        Some(c) => c.alloc(mc, T::make()),
        None => Gc::new(mc, T::make()),
    };
    let mut cur = T::from_def(p);
    for (k, st) in chain.iter().enumerate() {
        match step(mc, set, *st, cur) {
            StepRes::Ok(q) => cur = q,
            StepRes::Ill => return Err(format!("ill-typed {which} {k}")),
            StepRes::UpgradeNone => return Err(format!("upgrade-none {which} {k}")),
        }
    }
    Ok(cur)
}

fn pair<'gc, T1, T2, const M: usize>(
    mc: &Mutation<'gc>,
    set: DynamicRootSet<'gc>,
    rel: Rel,
    ch1: &[Step],
    ch2: &[Step],
    out: &mut CaseOut,
) where
    T1: Tgt<'gc> + ZMake + Collect<'gc>,
    T2: Tgt<'gc, U = T1::U> + ZMake + Collect<'gc>,
    Alignment<M>: ValidAlignment,
{
    let c1 = ZstCache::<M>::new(mc);
    let c2 = ZstCache::<M>::new(mc);
    let s1 = match side::<T1, M>(mc, set, Some(&c1), ch1, 1) {
        Ok(s) => s,
        Err(e) => {
            out.answer = Some(e);
            return;
        }
    };
    let r2 = match rel {
        Rel::Same => side::<T2, M>(mc, set, Some(&c1), ch2, 2),
        Rel::Diff => side::<T2, M>(mc, set, Some(&c2), ch2, 2),
        Rel::Fresh => side::<T2, M>(mc, set, None, ch2, 2),
    };
    let s2 = match r2 {
        Ok(s) => s,
        Err(e) => {
            out.answer = Some(e);
            return;
        }
    };
    let same_addr = s1.addr() == s2.addr();
    // typed comparison when both ends have the same Rust type
    let typed: Option<(bool, bool)> = match (s1, s2) {
        (Sh::Uns(a), Sh::Uns(b)) => Some((Gc::ptr_eq(a, b), Gc::ptr_eq(b, a))),
        (Sh::WUns(a), Sh::WUns(b)) => Some((GcWeak::ptr_eq(a, b), GcWeak::ptr_eq(b, a))),
        (Sh::Unit(a), Sh::Unit(b)) => Some((Gc::ptr_eq(a, b), Gc::ptr_eq(b, a))),
        (Sh::WUnit(a), Sh::WUnit(b)) => Some((GcWeak::ptr_eq(a, b), GcWeak::ptr_eq(b, a))),
        (Sh::UnitThin(a), Sh::UnitThin(b)) => Some((Gc::ptr_eq(a, b), Gc::ptr_eq(b, a))),
        (Sh::WUnitThin(a), Sh::WUnitThin(b)) => Some((GcWeak::ptr_eq(a, b), GcWeak::ptr_eq(b, a))),
        _ => None,
    };
    let eeq = match (s1.erased(), s2.erased()) {
        (Ok(x), Ok(y)) => Gc::ptr_eq(x, y),
        (Err(x), Err(y)) => GcWeak::ptr_eq(x, y),
        (Ok(x), Err(y)) | (Err(y), Ok(x)) => GcWeak::ptr_eq(Gc::downgrade(x), y),
    };
    if eeq != same_addr {
        out.mon(format!("ptr_eq of the erased pointers is {eeq} but as_ptr addresses are {:#x} / {:#x}", s1.addr(), s2.addr()));
    }
    if let Some((ab, ba)) = typed {
        if ab != ba {
            out.mon(format!("ptr_eq is not symmetric: {ab} / {ba}"));
        }
        if ab != same_addr {
            out.mon(format!(
                "ptr_eq of two {} pointers with metadata {} / {} is {ab} although both point to {} ({:#x} / {:#x})",
                s1.tags(),
                s1.dlen(),
                s2.dlen(),
                if same_addr { "the same allocation" } else { "different allocations" },
                s1.addr(),
                s2.addr()
            ));
        }
    }
    // the unsized views still read their own values
    let e = Exp { id: 0, n: 0 };
    if let Sh::Uns(a) = s1 {
        if let Err(m) = T1::check_u(&*a, &e) {
            out.mon(format!("first pointer: {m}"));
        }
    }
    if let Sh::Uns(b) = s2 {
        if let Err(m) = T2::check_u(&*b, &e) {
            out.mon(format!("second pointer: {m}"));
        }
    }
    out.answer = Some(match typed {
        Some((ab, _)) => format!("ok cmp={} eq={} eeq={}", s1.tags(), ab as u8, eeq as u8),
        None => format!("ok cmp=- eq=- eeq={}", eeq as u8),
    });
}

pub fn alias_query(m: usize, t1: &str, t2: &str, rel: Rel, ch1: &[Step], ch2: &[Step]) -> String {
    format!("alias {m} {t1} {t2} {} {} {}", rel.name(), chain_str(ch1), chain_str(ch2))
}

type SetArena = Arena<Rootable![DynamicRootSet<'_>]>;

macro_rules! run_pair {
    ($ms:literal, $a:ty, $b:ty, $rel:expr, $c1:expr, $c2:expr, $out:expr) => {{
        let arena = SetArena::new(|mc| DynamicRootSet::new(mc));
        arena.mutate(|mc, set| pair::<$a, $b, $ms>(mc, *set, $rel, $c1, $c2, $out));
    }};
}

macro_rules! dispatch_pairs {
    ($m:expr, $t1:expr, $t2:expr, $rel:expr, $c1:expr, $c2:expr, $out:expr; $( ($a:ty, $b:ty) ),* $(,)?) => {{
        let mut done = false;
        $(
            if !done && $t1 == <$a as ZMake>::NAME && $t2 == <$b as ZMake>::NAME {
                if $m == 8 {
                    run_pair!(8, $a, $b, $rel, $c1, $c2, $out);
                    done = true;
                } else if $m == 64 {
                    run_pair!(64, $a, $b, $rel, $c1, $c2, $out);
                    done = true;
                }
            }
        )*
        done
    }};
}

pub const DYN_TYPES: [&str; 7] = ["z:1", "z:4", "z:8", "z:64", "zn:2", "zn:8", "zn:16"];
pub const MAXES: [usize; 2] = [8, 64];

/// Run one alias case; false if the (types, M) combination is not instantiated.
pub fn alias_case(m: usize, t1: &str, t2: &str, rel: Rel, c1: &[Step], c2: &[Step], out: &mut CaseOut) -> bool {
    crate::types::reset_drops();
    dispatch_pairs!(m, t1, t2, rel, c1, c2, out;
        (Z1, Z4), (Z1, Z8), (Z1, Z64), (Z1, ZN2), (Z1, ZN8), (Z1, ZN16),
        (Z4, Z1), (Z4, Z8), (Z4, Z64), (Z4, ZN2), (Z4, ZN8), (Z4, ZN16),
        (Z8, Z1), (Z8, Z4), (Z8, Z64), (Z8, ZN2), (Z8, ZN8), (Z8, ZN16),
        (Z64, Z1), (Z64, Z4), (Z64, Z8), (Z64, ZN2), (Z64, ZN8), (Z64, ZN16),
        (ZN2, Z1), (ZN2, Z4), (ZN2, Z8), (ZN2, Z64), (ZN2, ZN8), (ZN2, ZN16),
        (ZN8, Z1), (ZN8, Z4), (ZN8, Z8), (ZN8, Z64), (ZN8, ZN2), (ZN8, ZN16),
        (ZN16, Z1), (ZN16, Z4), (ZN16, Z8), (ZN16, Z64), (ZN16, ZN2), (ZN16, ZN8),
        (U2, U3), (U3, U2)
    )
}

/// `Gc::from_ptr` of a shorter prefix of the same `[u8]` allocation.
pub fn prefix_case(n: usize, k: usize, out: &mut CaseOut) {
    let bytes: Vec<u8> = (0..n).map(|i| (i as u8).wrapping_mul(7).wrapping_add(3)).collect();
    gc_arena::arena::rootless_mutate(|mc| {
        let s: GcSlice<'_, u8> = GcSlice::new_slice_static(mc, &bytes);
        let p: Gc<'_, [u8]> = Gc::erase_kind(s);
        let raw = Gc::as_ptr(p);
        let short = std::ptr::slice_from_raw_parts(raw as *const u8, k);
        // SAFETY: `short` has the address `as_ptr` returned, the allocation is live, and its first
        // `k <= n` bytes are dereferencable as `[u8]`
        let q: Gc<'_, [u8]> = unsafe { Gc::from_ptr(short) };
        if &*q != &bytes[..k] || q.len() != k || p.len() != n {
            out.mon("the prefix view does not read the first bytes of the value".to_string());
        }
        let eq = Gc::ptr_eq(p, q);
        if eq != Gc::ptr_eq(q, p) {
            out.mon("ptr_eq is not symmetric".to_string());
        }
        let weq = GcWeak::ptr_eq(Gc::downgrade(p), Gc::downgrade(q));
        let eeq = Gc::ptr_eq(Gc::erase(p), Gc::erase(q));
        if !eq || !weq {
            out.mon(format!("ptr_eq of two `[u8]` pointers of lengths {n} / {k} to the same allocation ({:p}) is {eq} (weak: {weq})", raw as *const u8));
        }
        out.answer = Some(format!("ok eq={} weq={} eeq={}", eq as u8, weq as u8, eeq as u8));
    });
}
