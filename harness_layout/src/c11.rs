//! C11 cases (the builder clause of panic safety): repeated builder faults on ONE arena.
//!
//! A sequence runs, on a single arena, a panicking element constructor at every index
//! `k = 0 … n-1` (`k = n`: the constructor never panics, the builder completes), a builder dropped
//! right after `write_header`, and (for `Copy` elements) `copy_slice` / `copy_str` with wrong
//! lengths — for header / element types with and without destructor, zero-sized and over-aligned.
//! Every step is a `builder …` query compared with the Lean builder model exactly as for C18, and
//! after every caught unwind the arena must still be usable: a following allocation and a full
//! collection cycle behave (the garbage probe is destructed exactly once, the rooted probe and
//! every earlier completed value survive, `total_gc_count` is exactly the number of rooted
//! objects), the abandoned builder changed neither the Gc count nor the debt, and nothing is
//! destructed twice — checked again over the whole history when the arena is torn down.

use crate::c18::*;
use crate::common::*;
use crate::track::{self, Ev};
use crate::types::*;
use gc_arena::{Gc, Mutation, Static};
use std::mem::{align_of, size_of};

fn multiset(v: &[(u8, u32)]) -> Vec<(u8, u32)> {
    let mut v = v.to_vec();
    v.sort();
    v
}

#[allow(clippy::too_many_arguments)]
fn fault_seq(
    cx: &mut Cx,
    kind: &str,
    variant_static: bool,
    lays: (usize, usize, usize, usize),
    n: usize,
    hdrop: bool,
    edrop: bool,
    acts: Vec<Act>,
    typed: impl for<'gc> Fn(&Mutation<'gc>, &mut Root<'gc>, Act, &mut Run),
) {
    let (hs, ha, es, ea) = lays;
    let queries: Vec<String> = acts
        .iter()
        .map(|act| {
            format!(
                "builder {kind} {} {hs} {ha} {es} {ea} {n} {} {} {}",
                if variant_static { "static" } else { "plain" },
                hdrop as usize,
                edrop as usize,
                act.text()
            )
        })
        .collect();
    run_seq(cx, &queries, |seq| {
        let mut arena = on(|| A::new(|_| Root::default()));
        // some live objects, so that the arena has something to keep across the faults
        arena.mutate_root(|mc, root| {
            for i in 0..3u64 {
                let g = on(|| Gc::new(mc, i));
                root.keep.push(Gc::erase(g));
            }
        });
        let mut expected_live = 3usize;
        let mut probes: Vec<(usize, u32)> = vec![]; // (address of the rooted probe token, id)
        let mut next_probe = 1000u32;
        for (j, &act) in acts.iter().enumerate() {
            seq.begin(j, &queries[j]);
            start_zst_epoch();
            let c0 = created().len();
            let d0 = drops().len();
            let mut run = Run::default();
            let mut base = 0usize;
            arena.mutate_root(|mc, root| {
                // a positive debt, so that every linked allocation moves `allocation_debt` by 1.0
                mc.metrics().adjust_debt(1000.0);
                let gcs0 = mc.metrics().total_gc_count();
                let debt0 = mc.metrics().allocation_debt();
                let n0 = track::log_len();
                typed(mc, root, act, &mut run);
                let gcs1 = mc.metrics().total_gc_count();
                let debt1 = mc.metrics().allocation_debt();
                let allocs = allocs_since(n0);
                let evs = track::events_since(n0);
                let mut items: Vec<(usize, String)> = vec![];
                if let Some(&(b, size, align)) = allocs.first() {
                    base = b;
                    seq.base = b;
                    for e in &evs {
                        match *e {
                            Ev::Alloc { seq: s, addr, size, align } if addr == b => items.push((s, format!("alloc={size},{align}"))),
                            Ev::Dealloc { seq: s, addr, size: ds, align: da } if addr == b => items.push((
                                s,
                                if (ds, da) == (size, align) { "dealloc=same".to_string() } else { format!("dealloc={ds},{da}") },
                            )),
                            _ => {}
                        }
                    }
                    seq.check(run.v >= b && run.v % ea.max(ha) == 0, || "misaligned value pointer handed out by the builder".into());
                }
                let dr: Vec<(usize, u8, u32)> = drops()[d0..].to_vec();
                let cr: Vec<(u8, u32)> = created()[c0..].to_vec();
                for &(s, k, id) in &dr {
                    items.push((s, if k == b'H' { "dropH".to_string() } else { format!("dropE{id}") }));
                }
                items.sort();
                let left = track::block_at(base).map(|b| b.live as usize).unwrap_or(0);
                let dg = gcs1 as i64 - gcs0 as i64;
                let dd = debt1 - debt0;
                let ev_text = if items.is_empty() { "-".to_string() } else { items.iter().map(|x| x.1.as_str()).collect::<Vec<_>>().join(" ") };
                seq.answer(format!(
                    "events {ev_text} | panic={} link={} gcs+{dg} debt+{dd} left={left} contents={}",
                    run.panicked as usize,
                    (dg == 1) as usize,
                    match run.contents_ok {
                        Some(true) => "ok",
                        Some(false) => "bad",
                        None => "-",
                    }
                ));
                // ---- implementation-side monitors (independent of the model) ----
                let got = multiset(&dr.iter().map(|x| (x.1, x.2)).collect::<Vec<_>>());
                if let Some(m) = c03_monitor(&evs, base, &got, !act.completes(n)) {
                    emit_monitor_now(&m);
                }
                if !act.completes(n) {
                    seq.check(dg == 0 && dd == 0.0, || {
                        format!("metrics changed by an abandoned builder: total_gc_count {dg:+}, allocation_debt {dd:+}")
                    });
                    seq.check(!run.completed, || "a scenario that must fail produced a Gc".into());
                    let want = multiset(&cr);
                    seq.check(want == got, || {
                        format!(
                            "abandoned builder did not destruct exactly the initialised parts: initialised {}, destructed {}",
                            show_toks(&want),
                            show_toks(&got)
                        )
                    });
                    seq.check(left == 0, || "abandoned builder did not release its block".into());
                } else {
                    seq.check(run.completed && !run.panicked, || format!("completion failed: {}", last_panic_msg()));
                    seq.check(dg == 1 && dd == 1.0, || format!("completing a builder changed total_gc_count by {dg:+} and allocation_debt by {dd:+}"));
                    seq.check(got.is_empty(), || format!("destructors ran while completing a builder: {}", show_toks(&got)));
                    seq.check(run.contents_ok == Some(true), || "contents of the completed value differ from what was written".into());
                    seq.check(left == 1, || "completed value's block is not allocated".into());
                }
            });
            if run.completed {
                expected_live += 1;
            }
            // ---- C11: after the caught unwind the arena is still usable ----
            let d1 = drops().len();
            let n1 = track::log_len();
            let (rooted_id, garbage_id) = (next_probe, next_probe + 1);
            next_probe += 2;
            let mut count_after_alloc = 0usize;
            arena.mutate_root(|mc, root| {
                let g = on(|| Gc::new(mc, Static(ProbeTok { id: rooted_id })));
                probes.push((Gc::as_ptr(g) as usize, rooted_id));
                root.keep.push(Gc::erase(g));
                let _garbage = on(|| Gc::new(mc, Static(ProbeTok { id: garbage_id })));
                count_after_alloc = mc.metrics().total_gc_count();
            });
            seq.check(count_after_alloc == expected_live + 2, || {
                format!("after the fault: total_gc_count is {count_after_alloc} after two allocations, {} objects are alive", expected_live + 2)
            });
            on(|| arena.finish_cycle());
            expected_live += 1;
            let after: Vec<(u8, u32)> = drops()[d1..].iter().map(|x| (x.1, x.2)).collect();
            seq.check(after == vec![(b'P', garbage_id)], || {
                format!(
                    "after the fault: a full collection cycle destructed {} (exactly the garbage probe P{garbage_id} expected: nothing of the abandoned builder again, no rooted value)",
                    show_toks(&after)
                )
            });
            let cnt = arena.metrics().total_gc_count();
            seq.check(cnt == expected_live, || format!("after the fault: total_gc_count is {cnt} after a full cycle, {expected_live} objects are rooted"));
            let debt = arena.metrics().allocation_debt();
            seq.check(debt.is_finite() && debt >= 0.0, || format!("after the fault: allocation_debt is {debt}"));
            for &(addr, id) in &probes {
                let now = unsafe { (*(addr as *const Static<ProbeTok>)).0.id };
                seq.check(now == id, || format!("after the fault: rooted probe P{id} reads {now:#x}"));
            }
            if base != 0 {
                let touched = track::events_since(n1).iter().any(|e| matches!(e, Ev::Dealloc { addr, .. } if *addr == base));
                seq.check(!touched, || "after the fault: the collection released the builder's block (abandoned: a second time; completed: while rooted)".into());
            }
        }
        // ---- teardown: over the whole history everything is destructed exactly once ----
        arena.mutate_root(|_, root| {
            root.keep.clear();
            root.weak.clear();
        });
        on(|| arena.finish_cycle());
        on(|| arena.finish_cycle());
        let left_count = arena.metrics().total_gc_count();
        seq.check(left_count == 0, || format!("teardown: total_gc_count is {left_count} after everything was unrooted and two full cycles"));
        on(|| drop(arena));
        let mut want = created();
        for &(_, id) in &probes {
            want.push((b'P', id));
            want.push((b'P', id + 1));
        }
        // zero-sized elements have no identity: only their number counts
        let anon = |v: Vec<(u8, u32)>| -> Vec<(u8, u32)> {
            v.into_iter().map(|(k, id)| if k == b'E' && es == 0 { (k, 0) } else { (k, id) }).collect()
        };
        let want = multiset(&anon(want));
        let got = multiset(&anon(drops().iter().map(|x| (x.1, x.2)).collect::<Vec<_>>()));
        seq.check(want == got, || {
            format!("teardown: over the whole fault history, created {} but destructed {} (each exactly once expected)", show_toks(&want), show_toks(&got))
        });
    });
}

fn ns(cx: &mut Cx) -> Vec<usize> {
    let mut v: Vec<usize> = (0..=6).collect();
    if cx.thorough {
        v.extend([7, 8, 12, 17]);
        v.push(18 + cx.below(40) as usize);
    }
    v
}

/// Every fault index `k = 0 … n-1`, then `k = n` (no fault: completes), the builder dropped
/// right after `write_header`, and the first / a middle / the last index again (repeated faults
/// after a completed value exists on the same arena).
fn acts_for(n: usize, with_drop_new: bool) -> Vec<Act> {
    let mut v: Vec<Act> = (0..n).map(Act::Panic).collect();
    v.push(Act::Complete);
    v.push(Act::DropHeader);
    if with_drop_new {
        v.push(Act::DropNew);
    }
    if n > 0 {
        v.push(Act::Panic(0));
        v.push(Act::Panic(n / 2));
        v.push(Act::Panic(n - 1));
    }
    v.push(Act::Complete);
    v
}

fn copy_acts(n: usize) -> Vec<Act> {
    let mut ms = vec![n + 1, 0, n, n + 7];
    if n > 0 {
        ms.insert(0, n - 1);
    }
    let mut v: Vec<Act> = vec![];
    for m in ms {
        if !v.contains(&Act::Copy(m)) {
            v.push(Act::Copy(m));
        }
    }
    v
}

pub fn swh_faults<H: Hdr, E: Elem>(cx: &mut Cx) {
    let l = lays::<H, E>();
    for variant_static in [false, true] {
        for n in ns(cx) {
            fault_seq(cx, "swh", variant_static, l, n, H::DROPS, E::DROPS, acts_for(n, true), |mc, root, act, run| {
                swh_typed::<H, E>(mc, root, variant_static, n, act, None, run)
            });
        }
    }
}

pub fn swh_copy_faults<H: Hdr, E: Elem + Copy>(cx: &mut Cx) {
    let l = lays::<H, E>();
    for n in ns(cx) {
        let mut acts = copy_acts(n);
        // interleave with constructor panics on the same arena
        if n > 0 {
            acts.insert(1, Act::Panic(n - 1));
            acts.push(Act::Panic(0));
        }
        fault_seq(cx, "swh", true, l, n, H::DROPS, false, acts, |mc, root, act, run| match act {
            Act::Copy(m) => swh_copy_typed::<H, E>(mc, root, n, m, run),
            _ => swh_typed::<H, E>(mc, root, true, n, act, None, run),
        });
    }
}

pub fn slice_faults<E: Elem>(cx: &mut Cx) {
    let l = (0, 1, size_of::<E>(), align_of::<E>());
    for variant_static in [false, true] {
        for n in ns(cx) {
            fault_seq(cx, "slice", variant_static, l, n, false, E::DROPS, acts_for(n, false), |mc, root, act, run| {
                slice_typed::<E>(mc, root, variant_static, n, act, run)
            });
        }
    }
}

pub fn slice_copy_faults<E: Elem + Copy>(cx: &mut Cx) {
    let l = (0, 1, size_of::<E>(), align_of::<E>());
    for n in ns(cx) {
        let mut acts = copy_acts(n);
        if n > 0 {
            acts.insert(1, Act::Panic(0));
        }
        fault_seq(cx, "slice", true, l, n, false, false, acts, |mc, root, act, run| match act {
            Act::Copy(m) => slice_copy_typed::<E>(mc, root, n, m, run),
            _ => slice_typed::<E>(mc, root, true, n, act, run),
        });
    }
}

pub fn str_faults(cx: &mut Cx) {
    for n in ns(cx) {
        let mut acts = copy_acts(n);
        acts.push(Act::DropHeader);
        acts.push(Act::Copy(n + 2));
        fault_seq(cx, "str", false, (0, 1, 1, 1), n, false, false, acts, |mc, root, act, run| str_typed(mc, root, n, act, run));
    }
}
