//! Value, metadata, header and element types of the grids; drop / creation logs.

use crate::track;
use gc_arena::Collect;
use gc_arena::collect::Trace;
use gc_arena::meta::{AllocMeta, PtrMeta};
use std::alloc::Layout;
use std::cell::RefCell;
use std::marker::PhantomData;

macro_rules! def_v {
    ($($name:ident $a:literal),*) => {$(
        /// `N` bytes at alignment `$a` (size = `N` rounded up to the alignment).
        #[repr(align($a))]
        #[derive(Clone, Copy)]
        pub struct $name<const N: usize>(pub [u8; N]);
        impl<const N: usize> Pod for $name<N> {
            fn sample() -> Self { $name([0x11; N]) }
        }
    )*};
}
def_v!(V1 1, V2 2, V4 4, V8 8, V16 16, V32 32, V64 64, V128 128, V256 256, V512 512, V1024 1024, V2048 2048, V4096 4096);

/// Plain-old-data types: any byte pattern is a value, no destructor.
pub trait Pod: Copy + Send + 'static {
    fn sample() -> Self;
}
macro_rules! pod_int { ($($t:ty = $v:expr),*) => {$( impl Pod for $t { fn sample() -> Self { $v } } )*}; }
pod_int!(u8 = 0x11, u16 = 0x1111, u32 = 0x1111_1111, u64 = 0x1111_1111_1111_1111, u128 = 0x1111_1111_1111_1111_1111_1111_1111_1111);
impl Pod for () {
    fn sample() -> Self {}
}
impl<const N: usize> Pod for [u8; N] {
    fn sample() -> Self {
        [0x11; N]
    }
}
impl<const N: usize> Pod for [u16; N] {
    fn sample() -> Self {
        [0x1111; N]
    }
}

/// A `Collect` wrapper with `NEEDS_TRACE = true` (exercises the gray queue / `trace_value`).
#[repr(transparent)]
pub struct Tr<T>(pub T);
unsafe impl<'gc, T: 'static> Collect<'gc> for Tr<T> {
    const NEEDS_TRACE: bool = true;
    fn trace<C: Trace<'gc>>(&self, _cc: &mut C) {
        TRACES.with(|t| *t.borrow_mut() += 1);
    }
}

thread_local! {
    pub static TRACES: RefCell<usize> = const { RefCell::new(0) };
    /// (seq, kind, id): kind b'H' header token, b'E' element token
    pub static DROPS: RefCell<Vec<(usize, u8, u32)>> = const { RefCell::new(Vec::new()) };
    /// zero-sized element tokens number their destructions from this many `E` entries on
    /// (start of the current step of a sequence)
    pub static ZBASE: std::cell::Cell<usize> = const { std::cell::Cell::new(0) };
    pub static CREATED: RefCell<Vec<(u8, u32)>> = const { RefCell::new(Vec::new()) };
    /// metadata bytes seen by `CM::layout` / `CM::from_thin`
    pub static METAS: RefCell<Vec<(u8, Vec<u8>)>> = const { RefCell::new(Vec::new()) };
}

/// Zero-sized element tokens destructed from now on are numbered 0, 1, 2, …
pub fn start_zst_epoch() {
    let n = DROPS.with(|d| d.borrow().iter().filter(|x| x.1 == b'E').count());
    ZBASE.with(|z| z.set(n));
}

pub fn reset_logs() {
    ZBASE.with(|z| z.set(0));
    TRACES.with(|t| *t.borrow_mut() = 0);
    DROPS.with(|d| d.borrow_mut().clear());
    CREATED.with(|d| d.borrow_mut().clear());
    METAS.with(|d| d.borrow_mut().clear());
}

pub fn log_drop(kind: u8, id: u32) {
    let seq = track::next_seq();
    track::untracked(|| DROPS.with(|d| d.borrow_mut().push((seq, kind, id))));
}
pub fn log_created(kind: u8, id: u32) {
    track::untracked(|| CREATED.with(|d| d.borrow_mut().push((kind, id))));
}
pub fn drops() -> Vec<(usize, u8, u32)> {
    DROPS.with(|d| d.borrow().clone())
}
pub fn created() -> Vec<(u8, u32)> {
    CREATED.with(|d| d.borrow().clone())
}

// ------------------------------------------------------------------------------------------
// per-value metadata: a user `AllocMeta` impl for sized `T` storing an arbitrary metadata type
// ------------------------------------------------------------------------------------------
pub struct CM<Mt>(PhantomData<Mt>);

fn record_meta<Mt>(which: u8, m: &Mt) {
    let bytes: Vec<u8> = track::untracked(|| {
        (0..std::mem::size_of::<Mt>()).map(|i| unsafe { *((m as *const Mt as *const u8).add(i)) }).collect()
    });
    track::untracked(|| METAS.with(|d| d.borrow_mut().push((which, bytes))));
}

impl<T, M, Mt: Pod> PtrMeta<T, M> for CM<Mt> {
    type PtrMetadata = Mt;
    type Thin = T;
    fn to_thin(_tm: &'static M, fat: *const T) -> *const T {
        fat
    }
    fn from_thin(_tm: &'static M, thin: *const T, m: Mt) -> *const T {
        record_meta(b'F', &m);
        thin
    }
}
impl<T, M, Mt: Pod> AllocMeta<T, M> for CM<Mt> {
    fn layout(_tm: &'static M, m: Mt) -> Option<Layout> {
        record_meta(b'L', &m);
        Some(Layout::new::<T>())
    }
}

// ------------------------------------------------------------------------------------------
// builder cases: header and element types
// ------------------------------------------------------------------------------------------
pub const TOMB: u32 = 0xDEAD_0000;

pub trait Elem: 'static + Sized {
    const DROPS: bool;
    fn make(i: usize) -> Self;
    /// Build without registering in the creation log (manual initialisation of a builder that is
    /// then abandoned: the API contract leaks such elements).
    fn make_unlogged(i: usize) -> Self;
    fn ok(&self, i: usize) -> bool;
}
pub trait Hdr: 'static + Sized {
    const DROPS: bool;
    fn make() -> Self;
    fn ok(&self) -> bool;
}

macro_rules! tok_elem {
    ($name:ident, $repr:meta) => {
        #[$repr]
        pub struct $name {
            pub id: u32,
        }
        impl Drop for $name {
            fn drop(&mut self) {
                log_drop(b'E', self.id);
                self.id = TOMB;
            }
        }
        impl Elem for $name {
            const DROPS: bool = true;
            fn make(i: usize) -> Self {
                log_created(b'E', i as u32);
                $name { id: i as u32 }
            }
            fn make_unlogged(i: usize) -> Self {
                $name { id: i as u32 }
            }
            fn ok(&self, i: usize) -> bool {
                self.id == i as u32
            }
        }
    };
}
tok_elem!(ETok, repr(C));
tok_elem!(ETok64, repr(align(64)));

macro_rules! ztok_elem {
    ($name:ident, $repr:meta) => {
        /// Zero-sized element with a destructor: drops are numbered in order of occurrence.
        #[$repr]
        pub struct $name;
        impl Drop for $name {
            fn drop(&mut self) {
                let n = DROPS.with(|d| d.borrow().iter().filter(|x| x.1 == b'E').count());
                log_drop(b'E', n.saturating_sub(ZBASE.with(|z| z.get())) as u32);
            }
        }
        impl Elem for $name {
            const DROPS: bool = true;
            fn make(i: usize) -> Self {
                log_created(b'E', i as u32);
                $name
            }
            fn make_unlogged(_i: usize) -> Self {
                $name
            }
            fn ok(&self, _i: usize) -> bool {
                true
            }
        }
    };
}
ztok_elem!(EZTok, repr(C));
ztok_elem!(EZTok32, repr(align(32)));

macro_rules! plain_elem {
    ($t:ty, $mk:expr, $ok:expr) => {
        impl Elem for $t {
            const DROPS: bool = false;
            fn make(i: usize) -> Self {
                ($mk)(i)
            }
            fn make_unlogged(i: usize) -> Self {
                ($mk)(i)
            }
            fn ok(&self, i: usize) -> bool {
                ($ok)(self, i)
            }
        }
    };
}
plain_elem!(u8, |i: usize| (i as u8).wrapping_mul(37).wrapping_add(5), |s: &u8, i: usize| *s == (i as u8).wrapping_mul(37).wrapping_add(5));
plain_elem!(u32, |i: usize| 0xC0DE_0000u32 + i as u32, |s: &u32, i: usize| *s == 0xC0DE_0000u32 + i as u32);
plain_elem!((), |_i: usize| (), |_s: &(), _i: usize| true);
plain_elem!(V64<64>, |i: usize| V64([i as u8 ^ 0x3C; 64]), |s: &V64<64>, i: usize| s.0.iter().all(|b| *b == i as u8 ^ 0x3C));
plain_elem!(V4096<1>, |i: usize| V4096([i as u8 ^ 0x55; 1]), |s: &V4096<1>, i: usize| s.0[0] == i as u8 ^ 0x55);

macro_rules! tok_hdr {
    ($name:ident, $repr:meta) => {
        #[$repr]
        pub struct $name {
            pub id: u32,
        }
        impl Drop for $name {
            fn drop(&mut self) {
                log_drop(b'H', self.id);
                self.id = TOMB;
            }
        }
        impl Hdr for $name {
            const DROPS: bool = true;
            fn make() -> Self {
                log_created(b'H', 777);
                $name { id: 777 }
            }
            fn ok(&self) -> bool {
                self.id == 777
            }
        }
    };
}
tok_hdr!(HTok, repr(C));
tok_hdr!(HTok128, repr(align(128)));

/// Zero-sized header with a destructor.
pub struct HZTok;
impl Drop for HZTok {
    fn drop(&mut self) {
        log_drop(b'H', 777);
    }
}
impl Hdr for HZTok {
    const DROPS: bool = true;
    fn make() -> Self {
        log_created(b'H', 777);
        HZTok
    }
    fn ok(&self) -> bool {
        true
    }
}
impl Hdr for () {
    const DROPS: bool = false;
    fn make() -> Self {}
    fn ok(&self) -> bool {
        true
    }
}
impl Hdr for u64 {
    const DROPS: bool = false;
    fn make() -> Self {
        0x4845_4144_4552_2121
    }
    fn ok(&self) -> bool {
        *self == 0x4845_4144_4552_2121
    }
}
impl Hdr for V64<0> {
    const DROPS: bool = false;
    fn make() -> Self {
        V64([])
    }
    fn ok(&self) -> bool {
        true
    }
}
impl Hdr for [u8; 3] {
    const DROPS: bool = false;
    fn make() -> Self {
        [7, 8, 9]
    }
    fn ok(&self) -> bool {
        *self == [7, 8, 9]
    }
}

/// Token of the C11 "arena still usable" probe allocations (drop log kind `P`).
pub struct ProbeTok {
    pub id: u32,
}
impl Drop for ProbeTok {
    fn drop(&mut self) {
        log_drop(b'P', self.id);
        self.id = TOMB;
    }
}
