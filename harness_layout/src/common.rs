//! Case driver, output protocol and shared observation helpers.
//!
//! Output protocol (stdout), one group per case:
//!   `C <config line>`            once, first: the `config …` line for the model driver
//!   `S <idx> <query>`            printed (and flushed) before the case runs
//!   `A <idx> <answer>`           the observed answer, in the model driver's canonical format
//!   `M <idx> <text>`             zero or more implementation-side monitor failures
//!   `E <idx>`                    the case finished (absence = the process died in this case)
//!   `Z <cases run>`              last line

use crate::track::{self, Ev};
use gc_arena::{Arena, Collect, Gc, GcWeak, Rootable};
use std::cell::{Cell, RefCell};
use std::collections::HashSet;
use std::io::Write;
use std::panic::{AssertUnwindSafe, catch_unwind};

pub const FILL_A: u8 = 0xA5;
pub const FILL_B: u8 = 0x5B;

#[derive(Collect, Default)]
#[collect(no_drop)]
pub struct Root<'gc> {
    pub keep: Vec<Gc<'gc, ()>>,
    pub weak: Vec<GcWeak<'gc, ()>>,
}

pub type A = Arena<Rootable![Root<'_>]>;

/// Run a crate call with allocation tracking switched on.
pub fn on<R>(f: impl FnOnce() -> R) -> R {
    track::tracked(f)
}

pub struct Cx {
    pub thorough: bool,
    pub seed: u64,
    pub idx: usize,
    pub start: usize,
    pub only: Option<HashSet<String>>,
    pub list_only: bool,
    pub hdr_size: usize,
    pub hdr_align: usize,
    pub ran: usize,
    pub rng: u64,
    /// buffered stdout; flushed before every case that runs crate code (so that a crash can be
    /// attributed), not for the pure `std::alloc::Layout` cases
    pub out: std::io::BufWriter<std::io::Stdout>,
}

impl Cx {
    /// xorshift64*: every random choice derives from `--seed`.
    pub fn rand(&mut self) -> u64 {
        let mut x = self.rng;
        x ^= x >> 12;
        x ^= x << 25;
        x ^= x >> 27;
        self.rng = x;
        x.wrapping_mul(0x2545F4914F6CDD1D)
    }
    pub fn below(&mut self, n: u64) -> u64 {
        self.rand() % n.max(1)
    }
}

#[derive(Default)]
pub struct CaseOut {
    pub answer: Option<String>,
    pub monitors: Vec<String>,
    /// base address of the block under observation (addresses are printed relative to it)
    pub base: usize,
}

impl CaseOut {
    pub fn mon(&mut self, s: String) {
        self.monitors.push(s);
    }
    pub fn check(&mut self, ok: bool, f: impl FnOnce() -> String) {
        if !ok {
            self.monitors.push(f());
        }
    }
}

thread_local! {
    /// `SEQ` value at the moment the most recent panic started (set by the panic hook).
    pub static PANIC_SEQ: Cell<usize> = const { Cell::new(usize::MAX) };
    pub static PANIC_MSG: RefCell<String> = const { RefCell::new(String::new()) };
    pub static IN_CASE: Cell<bool> = const { Cell::new(false) };
    /// protocol index of the case / step that is running (for `emit_monitor_now`)
    pub static CUR_IDX: Cell<usize> = const { Cell::new(0) };
}

pub fn install_panic_hook() {
    std::panic::set_hook(Box::new(|info| {
        PANIC_SEQ.with(|p| p.set(track::next_seq()));
        track::untracked(|| {
            let msg = if let Some(s) = info.payload().downcast_ref::<&str>() {
                s.to_string()
            } else if let Some(s) = info.payload().downcast_ref::<String>() {
                s.clone()
            } else {
                "<non-string panic payload>".to_string()
            };
            let loc = info.location().map(|l| format!(" at {}:{}", l.file(), l.line())).unwrap_or_default();
            if !IN_CASE.with(|c| c.get()) {
                eprintln!("harness panic outside a case: {msg}{loc}");
            }
            PANIC_MSG.with(|m| *m.borrow_mut() = format!("{msg}{loc}"));
        });
    }));
}

/// Print a monitor line for the running case at once (and flush): for findings after which the
/// process may not live to the end of the case (a released block that is used again).  The
/// buffered writer was flushed when the case started, so the order of lines is kept.
pub fn emit_monitor_now(m: &str) {
    let idx = CUR_IDX.with(|c| c.get());
    let so = std::io::stdout();
    let mut l = so.lock();
    let _ = writeln!(l, "M {idx} {}", m.replace('\n', " "));
    let _ = l.flush();
}

pub fn last_panic_msg() -> String {
    PANIC_MSG.with(|m| m.borrow().clone())
}

/// Marker payload of the panics the harness raises on purpose.
pub struct Deliberate;

pub fn rel_addr(addr: usize, base: usize) -> String {
    if base != 0 && addr >= base.saturating_sub(1 << 20) && addr < base + (1 << 24) {
        if addr >= base { format!("B+{}", addr - base) } else { format!("B-{}", base - addr) }
    } else {
        "X".to_string()
    }
}

/// Query line with run-dependent parts (the vtable address of `tag` queries) blanked out; used
/// to match the lines of a replay file.
pub fn normalise_query(q: &str) -> String {
    let w: Vec<&str> = q.split_whitespace().collect();
    if w.first() == Some(&"tag") && w.len() == 5 {
        format!("tag * {} {} {}", w[2], w[3], w[4])
    } else {
        w.join(" ")
    }
}

pub fn run_case(cx: &mut Cx, query: String, f: impl FnOnce(&mut CaseOut)) {
    cx.idx += 1;
    if cx.idx <= cx.start {
        return;
    }
    if let Some(only) = &cx.only {
        if !only.contains(&normalise_query(&query)) {
            return;
        }
    }
    let idx = cx.idx;
    let _ = writeln!(cx.out, "S {idx} {query}");
    if !query.starts_with("L ") {
        let _ = cx.out.flush();
    }
    if cx.list_only {
        let _ = writeln!(cx.out, "E {idx}");
        return;
    }
    cx.ran += 1;
    CUR_IDX.with(|c| c.set(idx));
    let mut out = CaseOut::default();
    crate::types::reset_logs();
    PANIC_SEQ.with(|p| p.set(usize::MAX));
    track::begin_case();
    IN_CASE.with(|c| c.set(true));
    let r = catch_unwind(AssertUnwindSafe(|| f(&mut out)));
    IN_CASE.with(|c| c.set(false));
    if let Err(e) = r {
        let deliberate = e.is::<Deliberate>();
        drop(e);
        out.monitors.push(format!(
            "unexpected panic escaped the case{}: {}",
            if deliberate { " (deliberate payload)" } else { "" },
            last_panic_msg()
        ));
    }
    let problems = track::end_case();
    let base = out.base;
    for p in problems {
        out.monitors.push(p.describe(&|a| rel_addr(a, base)));
    }
    let l = &mut cx.out;
    let _ = writeln!(l, "A {idx} {}", out.answer.as_deref().unwrap_or("no-answer"));
    for m in &out.monitors {
        let _ = writeln!(l, "M {idx} {}", m.replace('\n', " "));
    }
    let _ = writeln!(l, "E {idx}");
}

/// A sequence of steps sharing one arena and one allocator session (C11: repeated faults on one
/// arena).  Every step is its own protocol record (`S`/`A`/`M`/`E`, consecutive indices); the
/// record of the most recent step is held back until the next step starts or the sequence ends,
/// so that what the allocator finds at the end (outstanding blocks, damaged guards, writes after
/// free) can still be attached to it.
pub struct Seq<'a> {
    cx: &'a mut Cx,
    first: usize,
    /// (index, answer, monitors) of the step whose record has not been printed yet
    held: Option<(usize, Option<String>, Vec<String>)>,
    pub base: usize,
}

impl Seq<'_> {
    fn flush_held(&mut self) {
        if let Some((idx, a, ms)) = self.held.take() {
            let l = &mut self.cx.out;
            let _ = writeln!(l, "A {idx} {}", a.as_deref().unwrap_or("no-answer"));
            for m in &ms {
                let _ = writeln!(l, "M {idx} {}", m.replace('\n', " "));
            }
            let _ = writeln!(l, "E {idx}");
        }
    }
    /// Start step `j` (0-based) of the sequence.
    pub fn begin(&mut self, j: usize, query: &str) {
        self.flush_held();
        let idx = self.first + j;
        let _ = writeln!(self.cx.out, "S {idx} {query}");
        let _ = self.cx.out.flush();
        self.held = Some((idx, None, vec![]));
        CUR_IDX.with(|c| c.set(idx));
        self.cx.ran += 1;
        PANIC_SEQ.with(|p| p.set(usize::MAX));
    }
    pub fn answer(&mut self, a: String) {
        if let Some(h) = &mut self.held {
            h.1 = Some(a);
        }
    }
    pub fn mon(&mut self, m: String) {
        if let Some(h) = &mut self.held {
            h.2.push(m);
        }
    }
    pub fn check(&mut self, ok: bool, f: impl FnOnce() -> String) {
        if !ok {
            self.mon(f());
        }
    }
}

pub fn run_seq(cx: &mut Cx, queries: &[String], f: impl FnOnce(&mut Seq)) {
    let first = cx.idx + 1;
    cx.idx += queries.len();
    if first <= cx.start || queries.is_empty() {
        return; // resuming after a crash inside or behind this sequence: skip it as a whole
    }
    if let Some(only) = &cx.only {
        if !queries.iter().any(|q| only.contains(&normalise_query(q))) {
            return;
        }
    }
    if cx.list_only {
        for (j, q) in queries.iter().enumerate() {
            let _ = writeln!(cx.out, "S {} {q}", first + j);
            let _ = writeln!(cx.out, "E {}", first + j);
        }
        return;
    }
    crate::types::reset_logs();
    track::begin_case();
    IN_CASE.with(|c| c.set(true));
    let mut seq = Seq { cx, first, held: None, base: 0 };
    let r = catch_unwind(AssertUnwindSafe(|| f(&mut seq)));
    IN_CASE.with(|c| c.set(false));
    if let Err(e) = r {
        drop(e);
        seq.mon(format!("unexpected panic escaped the sequence in this step: {}", last_panic_msg()));
    }
    let problems = track::end_case();
    let base = seq.base;
    for p in problems {
        seq.mon(p.describe(&|a| rel_addr(a, base)));
    }
    seq.flush_held();
}

pub fn round_up(n: usize, a: usize) -> usize {
    n.div_ceil(a) * a
}

/// The block the crate allocated since log position `n0`, as seen by the allocator.
#[derive(Clone, Debug, Default)]
pub struct Obs {
    pub base: usize,
    pub size: usize,
    pub align: usize,
    /// value pointer returned by the builder
    pub v: usize,
    /// per byte of the block: differs from the pre-fill (= written by the crate)
    pub written: Vec<bool>,
    pub extra_allocs: usize,
}

/// Allocation events before the current panic (if any) since `n0`.
pub fn allocs_since(n0: usize) -> Vec<(usize, usize, usize)> {
    let pseq = PANIC_SEQ.with(|p| p.get());
    track::events_since(n0)
        .into_iter()
        .filter_map(|e| match e {
            Ev::Alloc { seq, addr, size, align } if seq < pseq => Some((addr, size, align)),
            _ => None,
        })
        .collect()
}

pub fn observe(n0: usize, v: usize, fill: u8) -> Result<Obs, String> {
    let allocs = allocs_since(n0);
    if allocs.is_empty() {
        return Err("builder creation performed no allocation".into());
    }
    let (base, size, align) = allocs[0];
    let mut written = vec![false; size];
    for (i, w) in written.iter_mut().enumerate() {
        *w = unsafe { *((base + i) as *const u8) } != fill;
    }
    Ok(Obs { base, size, align, v, written, extra_allocs: allocs.len() - 1 })
}

pub fn intervals(w: &[bool]) -> Vec<(usize, usize)> {
    let mut out = vec![];
    let mut i = 0;
    while i < w.len() {
        if w[i] {
            let s = i;
            while i < w.len() && w[i] {
                i += 1;
            }
            out.push((s, i));
        } else {
            i += 1;
        }
    }
    out
}

pub fn show_intervals(iv: &[(usize, usize)]) -> String {
    if iv.is_empty() {
        "-".into()
    } else {
        iv.iter().map(|(a, b)| format!("{a}..{b}")).collect::<Vec<_>>().join(",")
    }
}

pub fn pat(seed: u64, i: usize) -> u8 {
    let x = (i as u64).wrapping_mul(0x9E3779B97F4A7C15) ^ seed.wrapping_mul(0xD1B54A32D192ED03);
    // odd (never 0) and 7-bit, so that a pattern is also a valid UTF-8 `str`
    (((x >> 29) as u8) & 0x7f) | 1
}

pub fn write_pattern(v: usize, len: usize, seed: u64) {
    for i in 0..len {
        unsafe { *((v + i) as *mut u8) = pat(seed, i) };
    }
}

/// First offset at which the pattern is damaged.
pub fn check_pattern(v: usize, len: usize, seed: u64) -> Option<usize> {
    (0..len).find(|&i| unsafe { *((v + i) as *const u8) } != pat(seed, i))
}

pub fn snapshot(lo: usize, hi: usize) -> Vec<u8> {
    (lo..hi).map(|a| unsafe { *(a as *const u8) }).collect()
}

/// Everything the layout cases observe about one allocation, turned into the canonical answer.
#[derive(Default)]
pub struct LayoutSt {
    pub obs: Vec<Obs>,
    /// events produced by dropping the first (abandoned) builder
    pub drop1: Vec<Ev>,
    pub meta_size: usize,
    pub meta_align: usize,
    pub value_size: usize,
    pub value_align: usize,
    pub pattern: bool,
    pub seed: u64,
    /// bytes of the block in front of the value right after allocation (second builder)
    pub prefix: Vec<u8>,
    /// offset of the metadata slot as implied by the written bytes
    pub meta_off: Option<usize>,
}

impl LayoutSt {
    pub fn v(&self) -> usize {
        self.obs.last().map(|o| o.v).unwrap_or(0)
    }
    pub fn base(&self) -> usize {
        self.obs.last().map(|o| o.base).unwrap_or(0)
    }
}

/// Checks made right after the two builders were observed; returns the first part of the answer.
pub fn layout_answer_head(cx_hdr: (usize, usize), st: &mut LayoutSt, out: &mut CaseOut) -> Option<String> {
    let (hs, ha) = cx_hdr;
    if st.obs.len() != 2 {
        return None;
    }
    let (o1, o2) = (st.obs[0].clone(), st.obs[1].clone());
    let (o1, o2) = (&o1, &o2);
    out.base = o2.base;
    let off1 = o1.v.wrapping_sub(o1.base);
    let off2 = o2.v.wrapping_sub(o2.base);
    out.check((o1.size, o1.align, off1) == (o2.size, o2.align, off2), || {
        format!(
            "two allocations of the same type/length got different layouts: size {} align {} value offset {} vs size {} align {} value offset {}",
            o1.size, o1.align, off1, o2.size, o2.align, off2
        )
    });
    out.check(o1.extra_allocs == 0 && o2.extra_allocs == 0, || "builder creation performed more than one allocation".into());
    // the abandoned first builder: released once, same address, same layout
    let d: Vec<_> = st.drop1.iter().filter(|e| matches!(e, Ev::Dealloc { .. })).collect();
    match d.as_slice() {
        [Ev::Dealloc { addr, size, align, .. }] => {
            out.check(*addr == o1.base && *size == o1.size && *align == o1.align, || {
                format!(
                    "abandoned builder released {} size {size} align {align}, allocated size {} align {}",
                    rel_addr(*addr, o1.base),
                    o1.size,
                    o1.align
                )
            });
        }
        [] => {} // reported as outstanding / wrong-address by the allocator
        _ => out.mon(format!("abandoned builder performed {} deallocations", d.len())),
    }
    // alignment of the value, and of header / metadata positions implied by the written bytes
    out.check(off2 <= o2.size, || format!("value pointer outside the block: offset {off2}, block size {}", o2.size));
    out.check(o2.v % st.value_align == 0, || {
        format!("misaligned value pointer: address % {} = {}", st.value_align, o2.v % st.value_align)
    });
    out.check(o2.base % o2.align == 0, || "allocator returned a misaligned block (harness bug)".into());
    out.check(off2.checked_add(st.value_size).is_some_and(|e| e <= o2.size), || {
        format!("value extent [{off2}, {off2}+{}) exceeds the block of size {}", st.value_size, o2.size)
    });
    // union of the bytes written by the crate in the two observations
    let n = o1.size.min(o2.size);
    let w: Vec<bool> = (0..n).map(|i| o1.written[i] || o2.written[i]).collect();
    let iv = intervals(&w);
    let max_end = iv.last().map(|x| x.1);
    let min_start = iv.first().map(|x| x.0);
    let header = match max_end {
        Some(e) if e >= hs => (e - hs).to_string(),
        _ => "?".to_string(),
    };
    if let Some(e) = max_end {
        out.check(e <= off2, || format!("crate wrote bytes of the value extent before initialisation: written up to offset {e}, value at {off2}"));
        if e >= hs {
            out.check((o2.base + e - hs) % ha == 0, || format!("misaligned GcHeader: offset {} in a block aligned {}", e - hs, o2.align));
        }
    }
    let meta = if st.meta_size == 0 {
        "-".to_string()
    } else {
        match min_start {
            Some(s) => {
                out.check((o2.base + s) % st.meta_align == 0, || {
                    format!("misaligned metadata slot: offset {s}, metadata alignment {}", st.meta_align)
                });
                st.meta_off = Some(s);
                s.to_string()
            }
            None => "?".to_string(),
        }
    };
    Some(format!(
        "alloc {} {} value {} header {} meta {} written {}",
        o2.size,
        o2.align,
        off2,
        header,
        meta,
        show_intervals(&iv)
    ))
}

/// Collections while the value is rooted, then release; returns the `release …` part.
pub fn layout_lifecycle(arena: &mut A, st: &LayoutSt, out: &mut CaseOut, mut recheck: impl FnMut(&mut A, &mut CaseOut)) -> String {
    let (v, base) = (st.v(), st.base());
    let o = st.obs.last().unwrap().clone();
    let fits = v.wrapping_sub(base).checked_add(st.value_size).is_some_and(|e| e <= o.size);
    for round in 0..3u64 {
        let n0 = track::log_len();
        arena.mutate(|mc, _| {
            on(|| {
                Gc::new(mc, round);
                Gc::new(mc, Static7([round as u8; 7]));
            })
        });
        on(|| arena.finish_cycle());
        let freed = track::events_since(n0).iter().any(|e| matches!(e, Ev::Dealloc { addr, .. } if *addr == base));
        out.check(!freed, || format!("rooted value released by collection {round}"));
        if freed {
            return "release early".into();
        }
        if st.pattern && fits {
            if let Some(i) = check_pattern(v, st.value_size, st.seed) {
                out.mon(format!("byte pattern damaged at value offset {i} of {} after collection {round}", st.value_size));
            }
        }
        if let Some(mo) = st.meta_off {
            if mo + st.meta_size <= st.prefix.len() {
                let now = snapshot(base + mo, base + mo + st.meta_size);
                out.check(now[..] == st.prefix[mo..mo + st.meta_size], || format!("metadata slot changed after collection {round}"));
            }
        }
        recheck(arena, out);
    }
    let n0 = track::log_len();
    arena.mutate_root(|_, root| {
        root.keep.clear();
        root.weak.clear();
    });
    on(|| arena.finish_cycle());
    on(|| arena.finish_cycle());
    let rel: Vec<_> = track::events_since(n0)
        .into_iter()
        .filter_map(|e| match e {
            Ev::Dealloc { addr, size, align, .. } if addr >= base.saturating_sub(1 << 16) && addr < base + o.size.max(1) + (1 << 16) => {
                Some((addr, size, align))
            }
            _ => None,
        })
        .collect();
    match rel.as_slice() {
        [(addr, size, align)] => format!("release {} {} {}", size, align, *addr as isize - base as isize),
        [] => {
            out.mon("unreachable value was not released by two full collections".into());
            "release none".into()
        }
        _ => "release many".into(),
    }
}

#[derive(Clone, Copy)]
pub struct Static7(#[allow(dead_code)] pub [u8; 7]);
unsafe impl<'gc> Collect<'gc> for Static7 {
    const NEEDS_TRACE: bool = false;
}
