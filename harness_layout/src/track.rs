//! Tracking global allocator of the layout / builder harness.
//!
//! While a case is active (on the case thread) every `alloc` / `dealloc` is logged with address,
//! size and alignment.  Tracked blocks
//!   * are carved out of a larger `System` block so that the returned address is aligned to the
//!     requested alignment and to **nothing more** (`addr % (2*align) == align`): code that relies
//!     on more alignment than it asked for shows up as a misaligned pointer;
//!   * are pre-filled with a known byte (so the harness can see which bytes the crate wrote);
//!   * are surrounded by guard bytes, checked on release and at the end of the case;
//!   * are poisoned and quarantined on release (never handed back before the case ends), so a
//!     double free, a release with a different layout, a release of an interior / wrong address
//!     and a write after free are recorded instead of corrupting the heap, and addresses are never
//!     reused within a case.
//! Blocks still allocated at the end of the case are reported as outstanding.

use std::alloc::{GlobalAlloc, Layout, System};
use std::cell::{Cell, UnsafeCell};
use std::sync::atomic::{AtomicBool, AtomicUsize, Ordering};

pub const GUARD: usize = 64;
/// Bytes after the block: large, so that an overrun is recorded instead of corrupting the heap.
pub const REAR_GUARD: usize = 4096;
const GUARD_BYTE: u8 = 0xFD;
const FREED_BYTE: u8 = 0xDD;
/// Requests above this size are refused (null): only a broken layout computation asks for them.
pub const HUGE: usize = 1 << 33;

thread_local! {
    static ACTIVE: Cell<bool> = const { Cell::new(false) };
}

/// Shared sequence counter: orders allocator events and drop-token events.
pub static SEQ: AtomicUsize = AtomicUsize::new(0);

pub fn next_seq() -> usize {
    SEQ.fetch_add(1, Ordering::Relaxed)
}

#[derive(Clone, Copy, Debug)]
pub struct Block {
    pub addr: usize,
    pub size: usize,
    pub align: usize,
    raw: usize,
    raw_size: usize,
    raw_align: usize,
    pub live: bool,
}

#[derive(Clone, Copy, Debug, PartialEq, Eq)]
pub enum Ev {
    Alloc { seq: usize, addr: usize, size: usize, align: usize },
    Dealloc { seq: usize, addr: usize, size: usize, align: usize },
}

#[derive(Clone, Copy, Debug)]
pub enum Problem {
    DoubleFree { addr: usize, size: usize, align: usize },
    WrongAddrFree { addr: usize, block: usize, bsize: usize, balign: usize, size: usize, align: usize },
    LayoutMismatch { addr: usize, asize: usize, aalign: usize, dsize: usize, dalign: usize },
    GuardFront { addr: usize, size: usize, align: usize, off: usize },
    GuardRear { addr: usize, size: usize, align: usize, off: usize },
    WriteAfterFree { addr: usize, size: usize, align: usize, off: usize },
    Huge { size: usize, align: usize },
    Outstanding { addr: usize, size: usize, align: usize },
}

impl Problem {
    pub fn describe(&self, rel: &dyn Fn(usize) -> String) -> String {
        match *self {
            Problem::DoubleFree { addr, size, align } => {
                format!("double-free of block {} (size {size} align {align})", rel(addr))
            }
            Problem::WrongAddrFree { addr, block, bsize, balign, size, align } => format!(
                "release of address {} which is not a block start (inside/near block {} of size {bsize} align {balign}); layout passed: size {size} align {align}",
                rel(addr),
                rel(block)
            ),
            Problem::LayoutMismatch { addr, asize, aalign, dsize, dalign } => format!(
                "layout mismatch on release of block {}: allocated size {asize} align {aalign}, released size {dsize} align {dalign}",
                rel(addr)
            ),
            Problem::GuardFront { addr, size, align, off } => format!(
                "write outside block: guard byte {off} bytes BEFORE block {} (size {size} align {align}) damaged",
                rel(addr)
            ),
            Problem::GuardRear { addr, size, align, off } => format!(
                "write outside block: guard byte {off} bytes AFTER the end of block {} (size {size} align {align}) damaged",
                rel(addr)
            ),
            Problem::WriteAfterFree { addr, size, align, off } => format!(
                "write after free: byte {off} of released block {} (size {size} align {align}) changed",
                rel(addr)
            ),
            Problem::Huge { size, align } => format!("absurd allocation request refused: size {size} align {align}"),
            Problem::Outstanding { addr, size, align } => {
                format!("outstanding block {} (size {size} align {align}) at the end of the case", rel(addr))
            }
        }
    }
}

/// A growable array that talks to `System` directly (never re-enters the tracker).
struct RawVec<T: Copy> {
    ptr: *mut T,
    len: usize,
    cap: usize,
}

impl<T: Copy> RawVec<T> {
    const fn new() -> Self {
        RawVec { ptr: std::ptr::null_mut(), len: 0, cap: 0 }
    }
    fn push(&mut self, v: T) {
        unsafe {
            if self.len == self.cap {
                let ncap = if self.cap == 0 { 64 } else { self.cap * 2 };
                let nl = Layout::array::<T>(ncap).unwrap();
                let np = if self.cap == 0 {
                    System.alloc(nl)
                } else {
                    System.realloc(self.ptr as *mut u8, Layout::array::<T>(self.cap).unwrap(), nl.size())
                } as *mut T;
                assert!(!np.is_null());
                self.ptr = np;
                self.cap = ncap;
            }
            self.ptr.add(self.len).write(v);
            self.len += 1;
        }
    }
    fn as_slice(&self) -> &[T] {
        if self.len == 0 { &[] } else { unsafe { std::slice::from_raw_parts(self.ptr, self.len) } }
    }
    fn as_mut_slice(&mut self) -> &mut [T] {
        if self.len == 0 { &mut [] } else { unsafe { std::slice::from_raw_parts_mut(self.ptr, self.len) } }
    }
    fn clear(&mut self) {
        self.len = 0;
    }
}

struct State {
    blocks: RawVec<Block>,
    log: RawVec<Ev>,
    problems: RawVec<Problem>,
    fill: u8,
}

struct Locked {
    lock: AtomicBool,
    nblocks: AtomicUsize,
    state: UnsafeCell<State>,
}
unsafe impl Sync for Locked {}

static STATE: Locked = Locked {
    lock: AtomicBool::new(false),
    nblocks: AtomicUsize::new(0),
    state: UnsafeCell::new(State { blocks: RawVec::new(), log: RawVec::new(), problems: RawVec::new(), fill: 0xA5 }),
};

fn with_state<R>(f: impl FnOnce(&mut State) -> R) -> R {
    while STATE.lock.compare_exchange(false, true, Ordering::Acquire, Ordering::Relaxed).is_err() {
        std::hint::spin_loop();
    }
    let r = f(unsafe { &mut *STATE.state.get() });
    STATE.lock.store(false, Ordering::Release);
    r
}

fn is_active() -> bool {
    ACTIVE.try_with(|a| a.get()).unwrap_or(false)
}

pub struct Tracker;

fn check_guards(b: &Block, problems: &mut RawVec<Problem>) {
    unsafe {
        let front = b.addr - b.raw;
        for i in 0..front {
            if *((b.raw + i) as *const u8) != GUARD_BYTE {
                problems.push(Problem::GuardFront { addr: b.addr, size: b.size, align: b.align, off: front - i });
                break;
            }
        }
        let rear_start = b.addr + b.size;
        let rear = b.raw + b.raw_size - rear_start;
        for i in 0..rear {
            if *((rear_start + i) as *const u8) != GUARD_BYTE {
                problems.push(Problem::GuardRear { addr: b.addr, size: b.size, align: b.align, off: i });
                break;
            }
        }
    }
}

unsafe fn tracked_alloc(l: Layout) -> *mut u8 {
    let (size, align) = (l.size(), l.align());
    if size > HUGE || align > (1 << 24) {
        with_state(|s| s.problems.push(Problem::Huge { size, align }));
        return std::ptr::null_mut();
    }
    let raw_align = (2 * align).max(16);
    let two = 2 * align;
    let k = if align >= GUARD { align } else { align + two * ((GUARD - align + two - 1) / two) };
    let raw_size = k + size + REAR_GUARD;
    let raw = unsafe { System.alloc(Layout::from_size_align(raw_size, raw_align).unwrap()) };
    if raw.is_null() {
        return raw;
    }
    let user = raw as usize + k;
    debug_assert!(user % align == 0 && user % two == align);
    with_state(|s| unsafe {
        std::ptr::write_bytes(raw, GUARD_BYTE, raw_size);
        std::ptr::write_bytes(user as *mut u8, s.fill, size);
        s.blocks.push(Block { addr: user, size, align, raw: raw as usize, raw_size, raw_align, live: true });
        STATE.nblocks.store(s.blocks.len, Ordering::Relaxed);
        s.log.push(Ev::Alloc { seq: next_seq(), addr: user, size, align });
    });
    user as *mut u8
}

/// Returns true when the pointer belongs to the tracker (and has been dealt with).
unsafe fn tracked_dealloc(p: *mut u8, l: Layout) -> bool {
    let addr = p as usize;
    with_state(|s| {
        let mut found: Option<usize> = None;
        let mut inside: Option<usize> = None;
        for (i, b) in s.blocks.as_slice().iter().enumerate().rev() {
            if b.addr == addr {
                found = Some(i);
                break;
            }
            if addr >= b.raw && addr < b.raw + b.raw_size && inside.is_none() {
                inside = Some(i);
            }
        }
        if let Some(i) = found {
            let b = s.blocks.as_slice()[i];
            if !b.live {
                s.problems.push(Problem::DoubleFree { addr, size: b.size, align: b.align });
                return true;
            }
            if b.size != l.size() || b.align != l.align() {
                s.problems.push(Problem::LayoutMismatch {
                    addr,
                    asize: b.size,
                    aalign: b.align,
                    dsize: l.size(),
                    dalign: l.align(),
                });
            }
            check_guards(&b, &mut s.problems);
            unsafe { std::ptr::write_bytes(addr as *mut u8, FREED_BYTE, b.size) };
            s.blocks.as_mut_slice()[i].live = false;
            s.log.push(Ev::Dealloc { seq: next_seq(), addr, size: l.size(), align: l.align() });
            true
        } else if let Some(i) = inside {
            let b = s.blocks.as_slice()[i];
            s.problems.push(Problem::WrongAddrFree {
                addr,
                block: b.addr,
                bsize: b.size,
                balign: b.align,
                size: l.size(),
                align: l.align(),
            });
            true
        } else {
            false
        }
    })
}

unsafe impl GlobalAlloc for Tracker {
    unsafe fn alloc(&self, l: Layout) -> *mut u8 {
        if is_active() { unsafe { tracked_alloc(l) } } else { unsafe { System.alloc(l) } }
    }
    unsafe fn dealloc(&self, p: *mut u8, l: Layout) {
        if STATE.nblocks.load(Ordering::Relaxed) != 0 && unsafe { tracked_dealloc(p, l) } {
            return;
        }
        unsafe { System.dealloc(p, l) }
    }
}

/// Run `f` with tracking switched off (harness bookkeeping).
pub fn untracked<R>(f: impl FnOnce() -> R) -> R {
    struct Restore(bool);
    impl Drop for Restore {
        fn drop(&mut self) {
            let _ = ACTIVE.try_with(|a| a.set(self.0));
        }
    }
    let _r = Restore(ACTIVE.with(|a| a.replace(false)));
    f()
}

/// Run `f` (a call into the crate under test) with tracking switched on.
pub fn tracked<R>(f: impl FnOnce() -> R) -> R {
    struct Restore(bool);
    impl Drop for Restore {
        fn drop(&mut self) {
            let _ = ACTIVE.try_with(|a| a.set(self.0));
        }
    }
    let _r = Restore(ACTIVE.with(|a| a.replace(true)));
    f()
}

pub fn begin_case() {
    ACTIVE.with(|a| a.set(false));
    with_state(|s| {
        s.blocks.clear();
        s.log.clear();
        s.problems.clear();
        s.fill = 0xA5;
        STATE.nblocks.store(0, Ordering::Relaxed);
    });
}

/// Byte the next tracked blocks are pre-filled with.
pub fn set_fill(b: u8) {
    with_state(|s| s.fill = b);
}

pub fn log_len() -> usize {
    with_state(|s| s.log.len)
}

pub fn events_since(n: usize) -> Vec<Ev> {
    // allocate outside the state lock (the allocator takes the lock itself)
    let total = log_len();
    let mut out: Vec<Ev> = untracked(|| Vec::with_capacity(total.saturating_sub(n) + 8));
    with_state(|s| {
        for e in &s.log.as_slice()[n.min(s.log.len)..] {
            if out.len() < out.capacity() {
                out.push(*e);
            }
        }
    });
    out
}

pub fn block_at(addr: usize) -> Option<Block> {
    with_state(|s| s.blocks.as_slice().iter().rev().find(|b| b.addr == addr).copied())
}

/// End the case: verify guards and poison of every block, report blocks still allocated, hand all
/// memory back to `System`.
pub fn end_case() -> Vec<Problem> {
    ACTIVE.with(|a| a.set(false));
    // no allocation / deallocation through the global allocator while the state lock is held
    with_state(|s| {
        let n = s.blocks.len;
        for i in 0..n {
            let b = s.blocks.as_slice()[i];
            check_guards(&b, &mut s.problems);
            if b.live {
                s.problems.push(Problem::Outstanding { addr: b.addr, size: b.size, align: b.align });
            } else {
                for j in 0..b.size {
                    if unsafe { *((b.addr + j) as *const u8) } != FREED_BYTE {
                        s.problems.push(Problem::WriteAfterFree { addr: b.addr, size: b.size, align: b.align, off: j });
                        break;
                    }
                }
            }
        }
        for i in 0..n {
            let b = s.blocks.as_slice()[i];
            unsafe {
                System.dealloc(b.raw as *mut u8, Layout::from_size_align(b.raw_size, b.raw_align).unwrap());
            }
        }
        s.blocks.clear();
        s.log.clear();
        STATE.nblocks.store(0, Ordering::Relaxed);
    });
    let n = with_state(|s| s.problems.len);
    let mut out: Vec<Problem> = Vec::with_capacity(n + 1);
    with_state(|s| {
        for p in s.problems.as_slice() {
            if out.len() < out.capacity() {
                out.push(*p);
            }
        }
        s.problems.clear();
    });
    out
}
