//! gcverif-layout — layout / builder correspondence harness for properties C17 and C18.
//!
//! Exercises the real gc-arena crate (path dependency on /repo's working tree) in-process under a
//! tracking global allocator and prints, for every case, the query line the Lean model driver
//! (`layoutmodel`) expects followed by the observed answer in the driver's canonical format; see
//! `common.rs` for the output protocol.
//!
//!   gcverif-layout --prop C17|C18|C11|C03|C04 [--tier quick|thorough] [--seed N] [--start IDX]
//!                  [--only FILE] [--list]

mod c04;
mod c11;
mod c17;
mod c18;
mod common;
mod track;
mod types;

use c04::*;
use c11::*;
use c17::*;
use c18::*;
use common::*;
use gc_arena::{GcBuilder, Static};
use std::alloc::Layout;
use std::io::Write;
use types::*;

#[global_allocator]
static GLOBAL: track::Tracker = track::Tracker;

/// `$f::<$name<N>>(cx)` for a spread of sizes.
macro_rules! sized_grid {
    ($cx:expr, $($name:ident),*) => {$(
        sized_grid!(@n $cx, $name, 0, 1, 2, 3, 4, 5, 7, 8, 9, 12, 15, 16, 17, 24, 31, 32, 33, 48, 63, 64, 65, 100, 127, 128, 129);
    )*};
    (@n $cx:expr, $name:ident, $($n:literal),*) => {$(
        sized_case::<Static<$name<$n>>>($cx);
        if $n % 5 == 0 || $n == 33 { sized_case::<Tr<$name<$n>>>($cx); }
    )*};
}

macro_rules! meta_grid {
    ($cx:expr, [$($m:ty),*], $vals:tt) => {$( meta_grid!(@v $cx, $m, $vals); )*};
    (@v $cx:expr, $m:ty, [$($v:ty),*]) => {$( meta_case::<$m, Static<$v>>($cx); )*};
}

macro_rules! swh_types {
    ($cx:expr, $lens:expr, [$($h:ty),*], $es:tt) => {$( swh_types!(@e $cx, $lens, $h, $es); )*};
    (@e $cx:expr, $lens:expr, $h:ty, [$($e:ty),*]) => {$(
        for &len in $lens.iter() { swh_case::<$h, $e>($cx, len); }
    )*};
}

macro_rules! slice_types {
    ($cx:expr, $lens:expr, [$($e:ty),*]) => {$(
        for &len in $lens.iter() { slice_case::<$e>($cx, len); }
    )*};
}

/// Size and alignment of `GcHeader`, observed rather than assumed: the block of a value with
/// unit metadata is `GcHeader` followed by the value, so three probes (a zero-sized, a one-byte
/// and an eight-byte value) each give a candidate.  The candidates agree on an unmodified crate;
/// if a change to the crate makes them disagree, the one equal to "two words" is used when
/// present (the disagreement then shows up in the cases themselves), else the most frequent.
fn probe_header() -> ((usize, usize), Vec<(usize, usize)>) {
    fn one<W: for<'a> gc_arena::Collect<'a> + 'static>(sub: usize) -> Option<(usize, usize)> {
        track::begin_case();
        let n0 = track::log_len();
        let r = std::panic::catch_unwind(|| {
            gc_arena::arena::rootless_mutate(|_| {
                let b = on(|| GcBuilder::<W>::new());
                on(|| drop(b));
            })
        });
        drop(r);
        let a = allocs_since(n0);
        let _ = track::end_case();
        a.first().map(|x| (x.1.wrapping_sub(sub), x.2))
    }
    IN_CASE.with(|c| c.set(true));
    let cands: Vec<(usize, usize)> =
        [one::<Static<V1<0>>>(0), one::<Static<V1<1>>>(1), one::<Static<V8<8>>>(8)].into_iter().flatten().collect();
    IN_CASE.with(|c| c.set(false));
    let word = std::mem::size_of::<usize>();
    let expected = (2 * word, word);
    let chosen = if cands.contains(&expected) {
        expected
    } else {
        cands.iter().copied().max_by_key(|c| cands.iter().filter(|d| *d == c).count()).unwrap_or((0, 0))
    };
    (chosen, cands)
}

fn c17(cx: &mut Cx) {
    let imax = isize::MAX as usize;
    // ---- std::alloc::Layout against the model of Layout ----
    let sizes: Vec<usize> = {
        let mut v = vec![0, 1, 2, 3, 5, 7, 8, 9, 15, 16, 17, 24, 63, 64, 65, 4095, 4096, 4097, 1 << 20, (1 << 31) + 3];
        for k in [0usize, 1, 2, 7, 8, 15, 16, 63, 64, 4095, 4096] {
            v.push(imax - k);
        }
        v.extend([imax + 1, imax + 2, usize::MAX, usize::MAX - 1]);
        for _ in 0..(if cx.thorough { 60 } else { 12 }) {
            let r = cx.rand();
            v.push((r >> (r % 61)) as usize);
        }
        v
    };
    let aligns: Vec<usize> = {
        let mut v = vec![0, 3, 6, 12, 1000, imax, usize::MAX];
        for s in 0..64 {
            v.push(1usize << s);
        }
        v.push((1usize << 63) + 1);
        v
    };
    for &s in &sizes {
        for &a in &aligns {
            layout_from(cx, s, a);
        }
    }
    let valid: Vec<Layout> = {
        let mut v = vec![];
        for &s in &sizes {
            for sh in [0, 1, 2, 3, 4, 6, 12, 20, 40, 62, 63] {
                if let Ok(l) = Layout::from_size_align(s, 1usize << sh) {
                    v.push(l);
                }
            }
        }
        v
    };
    let step = if cx.thorough { 1 } else { 5 };
    let mut i = 0;
    for a in &valid {
        layout_pad(cx, *a);
        for b in &valid {
            i += 1;
            if i % step == 0 {
                layout_extend(cx, *a, *b);
            }
        }
    }
    let counts: Vec<usize> = {
        let mut v = vec![0, 1, 2, 3, 7, 8, 100, 1 << 20, imax, usize::MAX];
        for d in [1usize, 2, 3, 4, 6, 8, 16, 24, 32, 64, 4096] {
            for k in [0isize, 1, 2, -1, -2] {
                v.push((imax / d).wrapping_add(k as usize));
                v.push(((imax - 63) / d).wrapping_add(k as usize));
            }
        }
        v
    };
    for &n in &counts {
        layout_array::<u8>(cx, n);
        layout_array::<u16>(cx, n);
        layout_array::<[u8; 3]>(cx, n);
        layout_array::<u32>(cx, n);
        layout_array::<[u16; 3]>(cx, n);
        layout_array::<u64>(cx, n);
        layout_array::<u128>(cx, n);
        layout_array::<V8<24>>(cx, n);
        layout_array::<V32<32>>(cx, n);
        layout_array::<V64<64>>(cx, n);
        layout_array::<V4096<1>>(cx, n);
        layout_array::<()>(cx, n);
        layout_array::<V64<0>>(cx, n);
    }

    // ---- sized values: A in 1..4096 x N in a spread of 0..129 ----
    sized_grid!(cx, V1, V2, V4, V8, V16, V32, V64, V128, V256, V512, V1024, V2048, V4096);

    // ---- every per-value metadata type (x a few values) ----
    meta_grid!(
        cx,
        [(), u8, u16, u32, u64, u128, [u8; 3], [u8; 5], [u16; 3], [u8; 17], V16<16>, V32<32>, V64<0>, V64<64>, V8<24>, V128<128>, V4096<4096>],
        [V1<0>, V1<1>, V1<3>, V2<2>, V4<12>, V8<8>, V8<24>, V16<16>, V32<1>, V64<0>, V64<65>, V256<7>, V4096<1>]
    );

    // ---- slices, strs, slices with header ----
    let mut lens: Vec<usize> = vec![0, 1, 2, 3, 5, 8];
    if cx.thorough {
        lens = (0..=17).collect();
        lens.extend([31, 32, 33, 63, 64, 65, 100, 127, 128, 129, 255, 256, 257, 1000, 4097]);
        for _ in 0..4 {
            lens.push(cx.below(3000) as usize);
        }
    } else {
        lens.push(9 + cx.below(120) as usize);
    }
    swh_types!(
        cx,
        lens,
        [(), u8, [u8; 3], u16, u32, u64, V8<16>, u128, [u8; 17], V32<32>, V64<0>, V64<1>, V4096<0>],
        [u8, [u8; 3], u16, [u16; 3], u32, u64, V8<24>, u128, V32<32>, V64<64>, (), V8<0>, V64<0>, V4096<1>]
    );
    slice_types!(cx, lens, [u8, [u8; 3], u16, [u16; 3], u32, u64, V8<24>, u128, V32<32>, V64<64>, (), V8<0>, V64<0>, V4096<1>]);
    let mut slens = lens.clone();
    slens.extend([26, 27, 52]);
    for &len in &slens {
        str_case(cx, len);
    }
    // ---- every AllocMeta impl DIRECTLY through GcBuilder::new_with_type_and_ptr_meta ----
    // (SlicePtrMeta::layout and StrPtrMeta::layout are reached on this path only); unit and
    // non-unit per-type metadata
    macro_rules! slice_direct {
        ($cx:expr, $lens:expr, [$($e:ty),*]) => {$(
            for &len in $lens.iter() {
                slice_direct_case::<$e, ViaNew>($cx, len);
                if len % 3 == 2 { slice_direct_case::<$e, ViaTm>($cx, len); }
            }
        )*};
    }
    let mut dlens = lens.clone();
    dlens.extend([7, 13]);
    dlens.sort();
    dlens.dedup();
    slice_direct!(cx, dlens, [u8, [u8; 3], u16, [u16; 3], u32, u64, V8<24>, u128, V32<32>, V64<64>, (), V8<0>, V64<0>, V4096<1>]);
    for &len in &dlens {
        str_direct_case::<ViaNew>(cx, len);
        str_direct_case::<ViaTm>(cx, len);
    }
    macro_rules! swh_direct {
        ($cx:expr, $lens:expr, [$($h:ty),*], $es:tt) => {$( swh_direct!(@e $cx, $lens, $h, $es); )*};
        (@e $cx:expr, $lens:expr, $h:ty, [$($e:ty),*]) => {$(
            for &len in $lens.iter() {
                swh_direct_case::<$h, $e, ViaNew>($cx, len);
                if len % 3 == 1 { swh_direct_case::<$h, $e, ViaTm>($cx, len); }
            }
        )*};
    }
    swh_direct!(cx, dlens, [(), u8, u64, [u8; 17], V32<32>, V64<0>], [u8, [u8; 3], u32, u64, V8<24>, V64<64>, (), V64<0>]);
    // ---- the new_with_type_meta entry points of the four builders (non-unit type metadata) ----
    sized_case_r::<Static<V1<0>>, ViaTm>(cx);
    sized_case_r::<Static<V1<3>>, ViaTm>(cx);
    sized_case_r::<Static<V8<24>>, ViaTm>(cx);
    sized_case_r::<Tr<V64<65>>, ViaTm>(cx);
    sized_case_r::<Static<V4096<1>>, ViaTm>(cx);
    for &len in &dlens {
        swh_case_r::<u8, u32, ViaTm>(cx, len);
        swh_case_r::<V32<32>, [u8; 3], ViaTm>(cx, len);
        swh_case_r::<(), V64<0>, ViaTm>(cx, len);
        slice_case_r::<u8, ViaTm>(cx, len);
        slice_case_r::<u64, ViaTm>(cx, len);
        slice_case_r::<V64<64>, ViaTm>(cx, len);
        slice_case_r::<(), ViaTm>(cx, len);
        str_case_r::<ViaTm>(cx, len);
    }
    // zero-sized elements admit any length (the value has no bytes)
    for len in [imax, usize::MAX, usize::MAX / 2 + 3] {
        slice_case::<()>(cx, len);
        slice_case::<V64<0>>(cx, len);
        slice_direct_case::<(), ViaNew>(cx, len);
        slice_direct_case::<V64<0>, ViaTm>(cx, len);
        swh_case::<u32, ()>(cx, len);
        swh_case::<V64<1>, V8<0>>(cx, len);
    }

    // ---- lengths without a layout: must panic before allocating ----
    fn certain_fail(es: usize) -> Vec<usize> {
        let imax = isize::MAX as usize;
        let mut v = vec![usize::MAX, usize::MAX / 2 + 1, imax, imax / es + 1, (imax - 15) / es + 1, (imax - 15) / es + 2];
        if es > 1 {
            v.push(usize::MAX / es);
            v.push(usize::MAX / es + 1);
        }
        v.sort();
        v.dedup();
        v
    }
    for len in certain_fail(1) {
        overflow_case::<(), u8>(cx, DstKind::Str, len);
        overflow_case::<(), u8>(cx, DstKind::Slice, len);
        overflow_case::<u64, u8>(cx, DstKind::Swh, len);
        overflow_case::<V64<1>, u8>(cx, DstKind::Swh, len);
    }
    for len in certain_fail(8) {
        overflow_case::<(), u64>(cx, DstKind::Slice, len);
        overflow_case::<u8, u64>(cx, DstKind::Swh, len);
    }
    for len in certain_fail(3) {
        overflow_case::<(), [u8; 3]>(cx, DstKind::Slice, len);
    }
    for len in certain_fail(64) {
        overflow_case::<(), V64<64>>(cx, DstKind::Slice, len);
        overflow_case::<u128, V64<64>>(cx, DstKind::Swh, len);
    }
    for len in certain_fail(4096) {
        overflow_case::<(), V4096<1>>(cx, DstKind::Slice, len);
    }
    for len in certain_fail(1) {
        overflow_case::<(), u8>(cx, DstKind::StrDirect, len);
        overflow_case::<(), u8>(cx, DstKind::SliceDirect, len);
        overflow_case::<u64, u8>(cx, DstKind::SwhDirect, len);
    }
    for len in certain_fail(8) {
        overflow_case::<(), u64>(cx, DstKind::SliceDirect, len);
        overflow_case::<u8, u64>(cx, DstKind::SwhDirect, len);
    }

    // ---- the tagged vtable pointer in every reachable state ----
    tag_cases::<Static<V8<8>>>(cx, false);
    tag_cases::<Tr<V8<8>>>(cx, true);
    tag_cases::<Static<V1<0>>>(cx, false);
    tag_cases::<Tr<V64<65>>>(cx, true);
    tag_cases::<Static<V4096<1>>>(cx, false);
}

fn c18(cx: &mut Cx) {
    gc_grid::<ETok>(cx);
    gc_grid::<ETok64>(cx);
    gc_grid::<EZTok>(cx);
    gc_grid::<EZTok32>(cx);
    gc_grid::<u32>(cx);
    gc_grid::<()>(cx);
    gc_grid::<V64<64>>(cx);
    gc_grid::<V4096<1>>(cx);

    macro_rules! swh_all {
        ([$($h:ty),*], $es:tt) => {$( swh_all!(@e $h, $es); )*};
        (@e $h:ty, [$($e:ty),*]) => {$( swh_grid::<$h, $e>(cx); )*};
    }
    swh_all!([HTok, HTok128, HZTok, (), u64, V64<0>, [u8; 3]], [ETok, ETok64, EZTok, EZTok32, u8, u32, (), V64<64>]);
    swh_grid::<HTok, V4096<1>>(cx);

    macro_rules! swh_copy_all {
        ([$($h:ty),*], $es:tt) => {$( swh_copy_all!(@e $h, $es); )*};
        (@e $h:ty, [$($e:ty),*]) => {$( swh_copy_grid::<$h, $e>(cx); )*};
    }
    swh_copy_all!([HTok, HTok128, HZTok, (), u64], [u8, u32, (), V64<64>]);

    slice_grid::<ETok>(cx);
    slice_grid::<ETok64>(cx);
    slice_grid::<EZTok>(cx);
    slice_grid::<EZTok32>(cx);
    slice_grid::<u8>(cx);
    slice_grid::<u32>(cx);
    slice_grid::<()>(cx);
    slice_grid::<V64<64>>(cx);
    slice_grid::<V4096<1>>(cx);
    slice_copy_grid::<u8>(cx);
    slice_copy_grid::<u32>(cx);
    slice_copy_grid::<()>(cx);
    slice_copy_grid::<V64<64>>(cx);
    slice_copy_grid::<V4096<1>>(cx);
    str_grid(cx);
    ctor_grid(cx);
}

/// C04, layout clause: alloc / release pairing over every release history.
fn c04(cx: &mut Cx) {
    pair_sized::<V1<0>>(cx);
    pair_sized::<()>(cx);
    pair_sized::<V2<0>>(cx);
    pair_sized::<V8<0>>(cx);
    pair_sized::<V32<0>>(cx);
    pair_sized::<V4096<0>>(cx);
    pair_sized::<V1<1>>(cx);
    pair_sized::<V1<3>>(cx);
    pair_sized::<u64>(cx);
    pair_sized::<V8<24>>(cx);
    pair_sized::<V16<16>>(cx);
    pair_sized::<V64<65>>(cx);
    pair_sized::<V4096<1>>(cx);
    pair_zst_cache(cx);
    let lens: Vec<usize> = if cx.thorough { vec![0, 1, 2, 3, 7, 8, 64, 1000] } else { vec![0, 1, 3, 8] };
    for &len in &lens {
        pair_slice::<u8>(cx, len);
        pair_slice::<[u8; 3]>(cx, len);
        pair_slice::<u64>(cx, len);
        pair_slice::<V64<64>>(cx, len);
        pair_slice::<()>(cx, len);
        pair_slice::<V64<0>>(cx, len);
        pair_str(cx, len);
        pair_swh::<(), u8>(cx, len);
        pair_swh::<u8, u32>(cx, len);
        pair_swh::<u64, ()>(cx, len);
        pair_swh::<V64<0>, V8<0>>(cx, len);
        pair_swh::<V32<32>, [u8; 3]>(cx, len);
    }
}

/// C11 (panic safety), builder clause: repeated builder faults on one arena.
fn c11(cx: &mut Cx) {
    macro_rules! swh_f {
        ([$($h:ty),*], $es:tt) => {$( swh_f!(@e $h, $es); )*};
        (@e $h:ty, [$($e:ty),*]) => {$( swh_faults::<$h, $e>(cx); )*};
    }
    // headers with / without destructor, zero-sized, over-aligned  x  elements likewise
    swh_f!([HTok, HTok128, HZTok, (), u64, V64<0>], [ETok, ETok64, EZTok, EZTok32, u8, u32, (), V64<64>]);
    swh_faults::<HTok, V4096<1>>(cx);
    macro_rules! swh_cf {
        ([$($h:ty),*], $es:tt) => {$( swh_cf!(@e $h, $es); )*};
        (@e $h:ty, [$($e:ty),*]) => {$( swh_copy_faults::<$h, $e>(cx); )*};
    }
    swh_cf!([HTok, HTok128, HZTok, (), u64], [u8, u32, (), V64<64>]);
    slice_faults::<ETok>(cx);
    slice_faults::<ETok64>(cx);
    slice_faults::<EZTok>(cx);
    slice_faults::<EZTok32>(cx);
    slice_faults::<u8>(cx);
    slice_faults::<u32>(cx);
    slice_faults::<()>(cx);
    slice_faults::<V64<64>>(cx);
    slice_copy_faults::<u8>(cx);
    slice_copy_faults::<u32>(cx);
    slice_copy_faults::<()>(cx);
    slice_copy_faults::<V64<64>>(cx);
    str_faults(cx);
}

fn main() {
    let args: Vec<String> = std::env::args().collect();
    let mut prop = String::from("all");
    let mut cx = Cx {
        thorough: false,
        seed: 1,
        idx: 0,
        start: 0,
        only: None,
        list_only: false,
        hdr_size: 0,
        hdr_align: 0,
        ran: 0,
        rng: 0,
        out: std::io::BufWriter::with_capacity(1 << 20, std::io::stdout()),
    };
    let mut i = 1;
    while i < args.len() {
        let val = |i: usize| args.get(i + 1).cloned().unwrap_or_default();
        match args[i].as_str() {
            "--prop" => {
                prop = val(i);
                i += 1;
            }
            "--tier" => {
                cx.thorough = val(i) == "thorough";
                i += 1;
            }
            "--seed" => {
                cx.seed = val(i).parse().unwrap_or(1);
                i += 1;
            }
            "--start" => {
                cx.start = val(i).parse().unwrap_or(0);
                i += 1;
            }
            "--only" => {
                let text = std::fs::read_to_string(val(i)).unwrap_or_default();
                cx.only = Some(
                    text.lines()
                        .map(|l| l.trim())
                        .filter(|l| !l.is_empty() && !l.starts_with('#') && !l.starts_with("config"))
                        .map(normalise_query)
                        .collect(),
                );
                i += 1;
            }
            "--list" => cx.list_only = true,
            other => {
                eprintln!("unknown argument {other}");
                std::process::exit(2);
            }
        }
        i += 1;
    }
    cx.rng = cx.seed.wrapping_mul(0x9E3779B97F4A7C15) | 1;
    install_panic_hook();
    let ((hs, ha), cands) = probe_header();
    cx.hdr_size = hs;
    cx.hdr_align = ha;
    let word = std::mem::size_of::<usize>();
    let _ = writeln!(cx.out, "C config {} {} {} {}", isize::MAX, hs, ha, word);
    if cands.iter().any(|c| *c != (hs, ha)) {
        let _ = writeln!(cx.out, "N header probes disagree: {cands:?} (using {hs}/{ha})");
    }
    if (hs, ha) != (2 * word, word) {
        let _ = writeln!(cx.out, "M 0 header probe: a zero-sized align-1 value was allocated with size {hs} align {ha}; GcHeader is two words ({} / {})", 2 * word, word);
    }
    if prop == "C17" || prop == "all" {
        c17(&mut cx);
    }
    if prop == "C18" || prop == "all" {
        c18(&mut cx);
    }
    if prop == "C11" || prop == "all" {
        c11(&mut cx);
    }
    if prop == "C04" || prop == "all" {
        c04(&mut cx);
    }
    if prop == "C03" {
        // C03's clause "no value destructed / no allocation released while a callback runs",
        // judged on every builder scenario and fault sequence (monitor `C03: …`)
        c18(&mut cx);
        c11(&mut cx);
    }
    let _ = writeln!(cx.out, "Z {}", cx.ran);
    let _ = cx.out.flush();
}
