//! C18 cases: every builder kind × abandonment point × element / header types.

use crate::common::*;
use crate::track::{self, Ev};
use crate::types::*;
use gc_arena::{Gc, GcBuilder, GcSliceBuilder, GcSliceWithHeaderBuilder, GcStrBuilder, Mutation, Static};
use std::mem::{align_of, size_of};
use std::panic::{AssertUnwindSafe, catch_unwind, panic_any};

#[derive(Clone, Copy, PartialEq, Eq, Debug)]
pub enum Act {
    DropNew,
    DropHeader,
    ManualDrop(usize),
    Panic(usize),
    Complete,
    Copy(usize),
    AssumeInit,
}

impl Act {
    pub(crate) fn text(self) -> String {
        match self {
            Act::DropNew => "drop-new".into(),
            Act::DropHeader => "drop-header".into(),
            Act::ManualDrop(k) => format!("manual-drop {k}"),
            Act::Panic(k) => format!("panic {k}"),
            Act::Complete => "complete".into(),
            Act::Copy(m) => format!("copy {m}"),
            Act::AssumeInit => "assume-init".into(),
        }
    }
    /// Does the scenario end with a `Gc` (as opposed to an abandoned builder)?
    pub(crate) fn completes(self, n: usize) -> bool {
        match self {
            Act::Complete | Act::AssumeInit => true,
            Act::Copy(m) => m == n,
            _ => false,
        }
    }
}

/// What the typed scenario reports back.
#[derive(Default)]
pub(crate) struct Run {
    /// value pointer of the builder (0 if creation failed)
    pub(crate) v: usize,
    /// the scenario produced a `Gc`
    pub(crate) completed: bool,
    /// contents of the completed value equal what was written
    pub(crate) contents_ok: Option<bool>,
    /// a panic unwound out of the crate call
    pub(crate) panicked: bool,
}

struct Setup {
    gcs0: usize,
    debt0: f64,
    n0: usize,
}

fn setup<'gc>(mc: &Mutation<'gc>, root: &mut Root<'gc>) -> Setup {
    // some live objects and a positive debt, so that every linked allocation moves
    // `allocation_debt` by exactly 1.0
    for i in 0..3u64 {
        let g = on(|| Gc::new(mc, i));
        root.keep.push(Gc::erase(g));
    }
    mc.metrics().adjust_debt(1000.0);
    Setup { gcs0: mc.metrics().total_gc_count(), debt0: mc.metrics().allocation_debt(), n0: track::log_len() }
}

// ---- gc kind -----------------------------------------------------------------------------
pub(crate) fn gc_typed<'gc, E: Elem>(mc: &Mutation<'gc>, root: &mut Root<'gc>, variant_static: bool, act: Act, run: &mut Run) {
    let r = catch_unwind(AssertUnwindSafe(|| {
        let mut b: GcBuilder<'gc, E> = if variant_static {
            on(|| GcBuilder::<Static<E>>::new()).unwrap_static()
        } else {
            // same allocation path; the value type is `Static<E>` in the vtable either way
            let raw = on(|| GcBuilder::<Static<E>>::new()).into_raw();
            unsafe { GcBuilder::from_raw(raw as *mut E) }
        };
        run.v = b.as_ptr() as usize;
        match act {
            Act::DropNew => on(|| drop(b)),
            Act::Complete => {
                let val = E::make(0);
                let gc = on(|| b.write(mc, val));
                run.completed = true;
                run.contents_ok = Some(gc.ok(0));
                root.keep.push(Gc::erase(gc));
            }
            Act::AssumeInit => {
                unsafe { b.as_ptr().write(E::make(0)) };
                let gc = on(|| unsafe { b.assume_init(mc) });
                run.completed = true;
                run.contents_ok = Some(gc.ok(0));
                root.keep.push(Gc::erase(gc));
            }
            _ => unreachable!(),
        }
    }));
    run.panicked = r.is_err();
}

// ---- slice-with-header kind ---------------------------------------------------------------
pub(crate) fn swh_typed<'gc, H: Hdr, E: Elem>(
    mc: &Mutation<'gc>,
    root: &mut Root<'gc>,
    variant_static: bool,
    n: usize,
    act: Act,
    copy_src: Option<&dyn Fn(&mut dyn FnMut(*const u8, usize))>,
    run: &mut Run,
) {
    let _ = copy_src;
    let r = catch_unwind(AssertUnwindSafe(|| {
        let b0 = on(|| GcSliceWithHeaderBuilder::<Static<H>, Static<E>>::new(n));
        let mut b = b0.unwrap_static_header();
        run.v = b.header_ptr() as usize;
        if act == Act::DropNew {
            on(|| drop(b));
            return;
        }
        let h = H::make();
        let sb0 = on(|| b.write_header(h));
        // `variant_static`: go through unwrap_static_element (elements typed `E`), else keep
        // `Static<E>` elements
        if variant_static {
            let mut sb = sb0.unwrap_static_element();
            match act {
                Act::DropHeader => on(|| drop(sb)),
                Act::ManualDrop(k) => {
                    let p = sb.slice_ptr() as *mut E;
                    for i in 0..k {
                        unsafe { p.add(i).write(E::make_unlogged(i)) };
                    }
                    on(|| drop(sb));
                }
                Act::Panic(k) => {
                    let _gc = on(|| {
                        sb.write_slice_with(mc, |i| {
                            if i == k {
                                panic_any(Deliberate);
                            }
                            E::make(i)
                        })
                    });
                }
                Act::Complete => {
                    let gc = on(|| sb.write_slice_with(mc, |i| E::make(i)));
                    run.completed = true;
                    run.contents_ok =
                        Some(gc.header.ok() && gc.slice.len() == n && gc.slice.iter().enumerate().all(|(i, e)| e.ok(i)));
                    root.keep.push(Gc::erase(gc));
                }
                Act::AssumeInit => {
                    let p = sb.slice_ptr() as *mut E;
                    for i in 0..n {
                        unsafe { p.add(i).write(E::make(i)) };
                    }
                    let gc = on(|| unsafe { sb.assume_init(mc) });
                    run.completed = true;
                    run.contents_ok =
                        Some(gc.header.ok() && gc.slice.len() == n && gc.slice.iter().enumerate().all(|(i, e)| e.ok(i)));
                    root.keep.push(Gc::erase(gc));
                }
                _ => unreachable!(),
            }
        } else {
            let mut sb = sb0;
            match act {
                Act::DropHeader => on(|| drop(sb)),
                Act::ManualDrop(k) => {
                    let p = sb.slice_ptr() as *mut E;
                    for i in 0..k {
                        unsafe { p.add(i).write(E::make_unlogged(i)) };
                    }
                    on(|| drop(sb));
                }
                Act::Panic(k) => {
                    let _gc = on(|| {
                        sb.write_slice_with(mc, |i| {
                            if i == k {
                                panic_any(Deliberate);
                            }
                            Static(E::make(i))
                        })
                    });
                }
                Act::Complete => {
                    let gc = on(|| sb.write_slice_with(mc, |i| Static(E::make(i))));
                    run.completed = true;
                    run.contents_ok =
                        Some(gc.header.ok() && gc.slice.len() == n && gc.slice.iter().enumerate().all(|(i, e)| e.0.ok(i)));
                    root.keep.push(Gc::erase(gc));
                }
                Act::AssumeInit => {
                    let p = sb.slice_ptr() as *mut E;
                    for i in 0..n {
                        unsafe { p.add(i).write(E::make(i)) };
                    }
                    let gc = on(|| unsafe { sb.assume_init(mc) });
                    run.completed = true;
                    run.contents_ok =
                        Some(gc.header.ok() && gc.slice.len() == n && gc.slice.iter().enumerate().all(|(i, e)| e.0.ok(i)));
                    root.keep.push(Gc::erase(gc));
                }
                _ => unreachable!(),
            }
        }
    }));
    run.panicked = r.is_err();
}

pub(crate) fn swh_copy_typed<'gc, H: Hdr, E: Elem + Copy>(mc: &Mutation<'gc>, root: &mut Root<'gc>, n: usize, m: usize, run: &mut Run) {
    let src: Vec<E> = (0..m).map(E::make).collect();
    let r = catch_unwind(AssertUnwindSafe(|| {
        let mut b = on(|| GcSliceWithHeaderBuilder::<Static<H>, Static<E>>::new(n)).unwrap_static_header();
        run.v = b.header_ptr() as usize;
        let sb = on(|| b.write_header(H::make())).unwrap_static_element();
        let gc = on(|| sb.copy_slice(mc, &src));
        run.completed = true;
        run.contents_ok = Some(gc.header.ok() && gc.slice.len() == n && gc.slice.iter().enumerate().all(|(i, e)| e.ok(i)));
        root.keep.push(Gc::erase(gc));
    }));
    run.panicked = r.is_err();
}

// ---- slice kind --------------------------------------------------------------------------
pub(crate) fn slice_typed<'gc, E: Elem>(mc: &Mutation<'gc>, root: &mut Root<'gc>, variant_static: bool, n: usize, act: Act, run: &mut Run) {
    let r = catch_unwind(AssertUnwindSafe(|| {
        let b0 = on(|| GcSliceBuilder::<Static<E>>::new(n));
        if variant_static {
            let mut b = b0.unwrap_static();
            run.v = b.slice_ptr() as *mut E as usize;
            match act {
                Act::DropHeader => on(|| drop(b)),
                Act::ManualDrop(k) => {
                    let p = b.slice_ptr() as *mut E;
                    for i in 0..k {
                        unsafe { p.add(i).write(E::make_unlogged(i)) };
                    }
                    on(|| drop(b));
                }
                Act::Panic(k) => {
                    let _gc = on(|| {
                        b.write_slice_with(mc, |i| {
                            if i == k {
                                panic_any(Deliberate);
                            }
                            E::make(i)
                        })
                    });
                }
                Act::Complete => {
                    let gc = on(|| b.write_slice_with(mc, |i| E::make(i)));
                    run.completed = true;
                    run.contents_ok = Some(gc.len() == n && gc.iter().enumerate().all(|(i, e)| e.ok(i)));
                    root.keep.push(Gc::erase(gc));
                }
                Act::AssumeInit => {
                    let p = b.slice_ptr() as *mut E;
                    for i in 0..n {
                        unsafe { p.add(i).write(E::make(i)) };
                    }
                    let gc = on(|| unsafe { b.assume_init(mc) });
                    run.completed = true;
                    run.contents_ok = Some(gc.len() == n && gc.iter().enumerate().all(|(i, e)| e.ok(i)));
                    root.keep.push(Gc::erase(gc));
                }
                _ => unreachable!(),
            }
        } else {
            let mut b = b0;
            run.v = b.slice_ptr() as *mut E as usize;
            match act {
                Act::DropHeader => on(|| drop(b)),
                Act::ManualDrop(k) => {
                    let p = b.slice_ptr() as *mut E;
                    for i in 0..k {
                        unsafe { p.add(i).write(E::make_unlogged(i)) };
                    }
                    on(|| drop(b));
                }
                Act::Panic(k) => {
                    let _gc = on(|| {
                        b.write_slice_with(mc, |i| {
                            if i == k {
                                panic_any(Deliberate);
                            }
                            Static(E::make(i))
                        })
                    });
                }
                Act::Complete => {
                    let gc = on(|| b.write_slice_with(mc, |i| Static(E::make(i))));
                    run.completed = true;
                    run.contents_ok = Some(gc.len() == n && gc.iter().enumerate().all(|(i, e)| e.0.ok(i)));
                    root.keep.push(Gc::erase(gc));
                }
                Act::AssumeInit => {
                    let p = b.slice_ptr() as *mut E;
                    for i in 0..n {
                        unsafe { p.add(i).write(E::make(i)) };
                    }
                    let gc = on(|| unsafe { b.assume_init(mc) });
                    run.completed = true;
                    run.contents_ok = Some(gc.len() == n && gc.iter().enumerate().all(|(i, e)| e.0.ok(i)));
                    root.keep.push(Gc::erase(gc));
                }
                _ => unreachable!(),
            }
        }
    }));
    run.panicked = r.is_err();
}

pub(crate) fn slice_copy_typed<'gc, E: Elem + Copy>(mc: &Mutation<'gc>, root: &mut Root<'gc>, n: usize, m: usize, run: &mut Run) {
    let src: Vec<E> = (0..m).map(E::make).collect();
    let r = catch_unwind(AssertUnwindSafe(|| {
        let mut b = on(|| GcSliceBuilder::<Static<E>>::new(n)).unwrap_static();
        run.v = b.slice_ptr() as *mut E as usize;
        let gc = on(|| b.copy_slice(mc, &src));
        run.completed = true;
        run.contents_ok = Some(gc.len() == n && gc.iter().enumerate().all(|(i, e)| e.ok(i)));
        root.keep.push(Gc::erase(gc));
    }));
    run.panicked = r.is_err();
}

// ---- str kind ----------------------------------------------------------------------------
pub(crate) fn str_typed<'gc>(mc: &Mutation<'gc>, root: &mut Root<'gc>, n: usize, act: Act, run: &mut Run) {
    let text = |m: usize| -> String { (0..m).map(|i| (b'a' + (i % 26) as u8) as char).collect() };
    let r = catch_unwind(AssertUnwindSafe(|| {
        let mut b = on(|| GcStrBuilder::new(n));
        run.v = b.str_ptr() as *mut u8 as usize;
        match act {
            Act::DropHeader => on(|| drop(b)),
            Act::Copy(m) => {
                let s = text(m);
                let gc = on(|| b.copy_str(mc, &s));
                run.completed = true;
                run.contents_ok = Some(&*gc == s.as_str());
                root.keep.push(Gc::erase(gc));
            }
            Act::AssumeInit => {
                let s = text(n);
                unsafe { std::ptr::copy_nonoverlapping(s.as_ptr(), b.str_ptr() as *mut u8, n) };
                let gc = on(|| unsafe { b.assume_init(mc) });
                run.completed = true;
                run.contents_ok = Some(&*gc == s.as_str());
                root.keep.push(Gc::erase(gc));
            }
            _ => unreachable!(),
        }
    }));
    run.panicked = r.is_err();
}

pub(crate) fn show_toks(v: &[(u8, u32)]) -> String {
    let items: Vec<String> = v.iter()
        .map(|(k, id)| match *k {
            b'H' => "H".to_string(),
            b'P' => format!("P{id}"),
            _ => format!("E{id}"),
        })
        .collect();
    format!("[{}]", items.join(" "))
}

/// C03's clause seen from the builders: while a callback is running the arena destructs no value
/// and releases no allocation.  `bracket` are the allocator events of the callback, `b` the
/// builder's block, `destructed` the tokens destructed during the callback, `callback_dropped`
/// whether the callback itself dropped / abandoned the builder (then exactly that builder's parts
/// and block may go — judged by the C18 monitors — but still nothing that existed before).
pub(crate) fn c03_monitor(bracket: &[Ev], b: usize, destructed: &[(u8, u32)], callback_dropped: bool) -> Option<String> {
    let born: Vec<usize> = bracket.iter().filter_map(|e| if let Ev::Alloc { addr, .. } = e { Some(*addr) } else { None }).collect();
    let foreign: Vec<(usize, usize)> = bracket
        .iter()
        .filter_map(|e| match e {
            Ev::Dealloc { addr, size, align, .. } if !born.contains(addr) => Some((*size, *align)),
            _ => None,
        })
        .collect();
    let own_released = bracket.iter().any(|e| matches!(e, Ev::Dealloc { addr, .. } if *addr == b && b != 0));
    let mut what = vec![];
    if !foreign.is_empty() {
        what.push(format!("released {} allocation(s) that existed before the callback {foreign:?}", foreign.len()));
    }
    if !callback_dropped {
        if !destructed.is_empty() {
            what.push(format!("destructed {}", show_toks(destructed)));
        }
        if own_released {
            what.push("released the block of the value being built (the Gc handed out is dangling)".to_string());
        }
    }
    if what.is_empty() {
        None
    } else {
        Some(format!(
            "C03: while a callback was running{} the arena {}",
            if callback_dropped { "" } else { " (and the callback itself dropped nothing)" },
            what.join(" and ")
        ))
    }
}

// ---- shared measurement ------------------------------------------------------------------
#[allow(clippy::too_many_arguments)]
fn builder_case(
    cx: &mut Cx,
    kind: &str,
    variant_static: bool,
    lays: (usize, usize, usize, usize),
    n: usize,
    hdrop: bool,
    edrop: bool,
    act: Act,
    typed: impl for<'gc> FnOnce(&Mutation<'gc>, &mut Root<'gc>, &mut Run),
) {
    let (hs, ha, es, ea) = lays;
    let query = format!(
        "builder {kind} {} {hs} {ha} {es} {ea} {n} {} {} {}",
        if variant_static { "static" } else { "plain" },
        hdrop as usize,
        edrop as usize,
        act.text()
    );
    run_case(cx, query, |out| {
        let mut arena = on(|| A::new(|_| Root::default()));
        let mut run = Run::default();
        let mut answer = String::new();
        let mut base = 0usize;
        let mut blk: Option<(usize, usize)> = None;
        arena.mutate_root(|mc, root| {
            let su = setup(mc, root);
            typed(mc, root, &mut run);
            let gcs1 = mc.metrics().total_gc_count();
            let debt1 = mc.metrics().allocation_debt();
            // the block: first allocation of the bracket (before any panic machinery)
            let allocs = allocs_since(su.n0);
            let evs = track::events_since(su.n0);
            let mut items: Vec<(usize, String)> = vec![];
            if let Some(&(b, size, align)) = allocs.first() {
                base = b;
                out.base = b;
                blk = Some((size, align));
                for e in &evs {
                    match *e {
                        Ev::Alloc { seq, addr, size, align } if addr == b => items.push((seq, format!("alloc={size},{align}"))),
                        Ev::Dealloc { seq, addr, size: ds, align: da } if addr == b => items.push((
                            seq,
                            if (ds, da) == (size, align) { "dealloc=same".to_string() } else { format!("dealloc={ds},{da}") },
                        )),
                        _ => {}
                    }
                }
                out.check(run.v >= b && run.v % ea.max(ha) == 0, || "misaligned value pointer handed out by the builder".into());
            }
            for (seq, k, id) in drops() {
                items.push((seq, if k == b'H' { "dropH".to_string() } else { format!("dropE{id}") }));
            }
            items.sort();
            let left = track::block_at(base).map(|b| b.live as usize).unwrap_or(0);
            let dg = gcs1 as i64 - su.gcs0 as i64;
            let dd = debt1 - su.debt0;
            let ev_text = if items.is_empty() { "-".to_string() } else { items.iter().map(|x| x.1.as_str()).collect::<Vec<_>>().join(" ") };
            answer = format!(
                "events {ev_text} | panic={} link={} gcs+{dg} debt+{dd} left={left} contents={}",
                run.panicked as usize,
                (dg == 1) as usize,
                match run.contents_ok {
                    Some(true) => "ok",
                    Some(false) => "bad",
                    None => "-",
                }
            );
            // ---- implementation-side monitors (independent of the model) ----
            let cr = created();
            let dr = drops();
            if let Some(m) = c03_monitor(&evs, base, &dr.iter().map(|x| (x.1, x.2)).collect::<Vec<_>>(), !act.completes(n)) {
                emit_monitor_now(&m);
            }
            if !act.completes(n) {
                out.check(dg == 0 && dd == 0.0, || {
                    format!("metrics changed by an abandoned builder: total_gc_count {dg:+}, allocation_debt {dd:+}")
                });
                out.check(!run.completed, || "a scenario that must fail produced a Gc".into());
                // every token created through the safe API has been destructed exactly once,
                // nothing else has
                let mut want: Vec<(u8, u32)> = cr.clone();
                want.sort();
                let mut got: Vec<(u8, u32)> = dr.iter().map(|x| (x.1, x.2)).collect();
                got.sort();
                out.check(want == got, || format!("wrong drop-token log after abandonment: created {}, destructed {}", show_toks(&want), show_toks(&got)));
                out.check(left == 0, || "abandoned builder did not release its block".into());
            } else {
                out.check(run.completed && !run.panicked, || format!("completion failed: {}", last_panic_msg()));
                out.check(dg == 1 && dd == 1.0, || format!("completing a builder changed total_gc_count by {dg:+} and allocation_debt by {dd:+}"));
                out.check(dr.is_empty(), || format!("destructors ran while completing a builder: {}", show_toks(&dr.iter().map(|x| (x.1, x.2)).collect::<Vec<_>>())));
                out.check(run.contents_ok == Some(true), || "contents of the completed value differ from what was written".into());
                out.check(left == 1, || "completed value's block is not allocated".into());
            }
        });
        // ---- afterwards: collections must not touch an abandoned block; a completed value
        // survives while rooted and is destructed exactly once when unrooted ----
        let n1 = track::log_len();
        let drops_before = drops().len();
        on(|| arena.finish_cycle());
        on(|| arena.finish_cycle());
        let touched = track::events_since(n1).iter().any(|e| matches!(e, Ev::Dealloc { addr, .. } if *addr == base));
        out.check(!touched, || "a collection released the builder's block while it was abandoned / still rooted".into());
        out.check(drops().len() == drops_before, || "a collection ran destructors of an abandoned / rooted value".into());
        if run.completed {
            arena.mutate_root(|_, root| root.keep.clear());
            on(|| arena.finish_cycle());
            on(|| arena.finish_cycle());
            let mut want: Vec<(u8, u32)> = created();
            want.sort();
            let d = drops();
            let mut got: Vec<(u8, u32)> = d.iter().map(|x| (x.1, x.2)).collect();
            got.sort();
            out.check(want == got, || format!("wrong drop-token log after release: created {}, destructed {}", show_toks(&want), show_toks(&got)));
            // header first, then elements in index order
            let seq_ok = d.iter().map(|x| (x.1 != b'H', x.2)).collect::<Vec<_>>().windows(2).all(|w| w[0] <= w[1]);
            out.check(seq_ok, || format!("destructors ran out of order: {}", show_toks(&d.iter().map(|x| (x.1, x.2)).collect::<Vec<_>>())));
            let rel: Vec<_> = track::events_since(n1)
                .into_iter()
                .filter_map(|e| match e {
                    Ev::Dealloc { addr, size, align, .. } if addr == base => Some((size, align)),
                    _ => None,
                })
                .collect();
            out.check(rel.len() == 1 && Some(rel[0]) == blk, || format!("completed value released as {rel:?}, allocated as {blk:?}"));
        }
        on(|| drop(arena));
        out.answer = Some(answer);
    });
}

// ---- grids -------------------------------------------------------------------------------
pub(crate) fn lays<H, E>() -> (usize, usize, usize, usize) {
    (size_of::<H>(), align_of::<H>(), size_of::<E>(), align_of::<E>())
}

pub fn gc_grid<E: Elem>(cx: &mut Cx) {
    for variant_static in [false, true] {
        for act in [Act::DropNew, Act::Complete, Act::AssumeInit] {
            let l = (0, 1, size_of::<E>(), align_of::<E>());
            builder_case(cx, "gc", variant_static, l, 0, false, E::DROPS, act, |mc, root, run| {
                gc_typed::<E>(mc, root, variant_static, act, run)
            });
        }
    }
}

fn ns(cx: &mut Cx) -> Vec<usize> {
    let mut v: Vec<usize> = (0..=6).collect();
    if cx.thorough {
        v.extend([7, 8, 9, 15, 16, 17, 33]);
        for _ in 0..3 {
            v.push(10 + cx.below(90) as usize);
        }
    }
    v
}

fn ks(cx: &mut Cx, n: usize) -> Vec<usize> {
    if n <= 9 {
        (0..n).collect()
    } else {
        let mut v = vec![0, 1, n / 2, n - 2, n - 1];
        v.push(cx.below(n as u64) as usize);
        v.sort();
        v.dedup();
        v
    }
}

pub fn swh_grid<H: Hdr, E: Elem>(cx: &mut Cx) {
    let l = lays::<H, E>();
    for variant_static in [false, true] {
        for n in ns(cx) {
            let mut acts = vec![Act::DropNew, Act::DropHeader, Act::Complete, Act::AssumeInit, Act::ManualDrop(0), Act::ManualDrop(n)];
            if n > 1 {
                acts.push(Act::ManualDrop(n / 2));
            }
            for k in ks(cx, n) {
                acts.push(Act::Panic(k));
            }
            // the static variant repeats the same machine through unwrap_static_*: fewer points
            if variant_static && !cx.thorough && n > 3 {
                acts.retain(|a| matches!(a, Act::Panic(_) | Act::Complete));
            }
            for act in acts {
                builder_case(cx, "swh", variant_static, l, n, H::DROPS, E::DROPS, act, |mc, root, run| {
                    swh_typed::<H, E>(mc, root, variant_static, n, act, None, run)
                });
            }
        }
    }
}

pub fn swh_copy_grid<H: Hdr, E: Elem + Copy>(cx: &mut Cx) {
    let l = lays::<H, E>();
    for n in ns(cx) {
        let mut ms = vec![n, n + 1, 0, n + 7];
        if n > 0 {
            ms.push(n - 1);
        }
        ms.sort();
        ms.dedup();
        for m in ms {
            builder_case(cx, "swh", true, l, n, H::DROPS, false, Act::Copy(m), |mc, root, run| {
                swh_copy_typed::<H, E>(mc, root, n, m, run)
            });
        }
    }
}

pub fn slice_grid<E: Elem>(cx: &mut Cx) {
    let l = (0, 1, size_of::<E>(), align_of::<E>());
    for variant_static in [false, true] {
        for n in ns(cx) {
            let mut acts = vec![Act::DropHeader, Act::Complete, Act::AssumeInit, Act::ManualDrop(0), Act::ManualDrop(n)];
            for k in ks(cx, n) {
                acts.push(Act::Panic(k));
            }
            if variant_static && !cx.thorough && n > 3 {
                acts.retain(|a| matches!(a, Act::Panic(_) | Act::Complete));
            }
            for act in acts {
                builder_case(cx, "slice", variant_static, l, n, false, E::DROPS, act, |mc, root, run| {
                    slice_typed::<E>(mc, root, variant_static, n, act, run)
                });
            }
        }
    }
}

pub fn slice_copy_grid<E: Elem + Copy>(cx: &mut Cx) {
    let l = (0, 1, size_of::<E>(), align_of::<E>());
    for n in ns(cx) {
        let mut ms = vec![n, n + 1, 0, n + 7];
        if n > 0 {
            ms.push(n - 1);
        }
        ms.sort();
        ms.dedup();
        for m in ms {
            builder_case(cx, "slice", true, l, n, false, false, Act::Copy(m), |mc, root, run| slice_copy_typed::<E>(mc, root, n, m, run));
        }
    }
}

pub fn str_grid(cx: &mut Cx) {
    for n in ns(cx) {
        let mut acts = vec![Act::DropHeader, Act::AssumeInit, Act::Copy(n), Act::Copy(n + 1), Act::Copy(0), Act::Copy(n + 13)];
        if n > 0 {
            acts.push(Act::Copy(n - 1));
        }
        acts.dedup();
        let mut seen = vec![];
        for act in acts {
            if seen.contains(&act) {
                continue;
            }
            seen.push(act);
            builder_case(cx, "str", false, (0, 1, 1, 1), n, false, false, act, |mc, root, run| str_typed(mc, root, n, act, run));
        }
    }
}

// ---- the crate's one-call constructors (they run the same builders inside) -----------------
pub fn ctor_grid(cx: &mut Cx) {
    fn collectable<E: Elem + Copy + for<'a> gc_arena::Collect<'a>>(cx: &mut Cx, n: usize) {
        let l = (0, 1, size_of::<E>(), align_of::<E>());
        builder_case(cx, "slice", false, l, n, false, false, Act::Copy(n), |mc, root, run| {
            let src: Vec<E> = (0..n).map(E::make).collect();
            let r = catch_unwind(AssertUnwindSafe(|| {
                let gc = on(|| gc_arena::GcSlice::new_slice(mc, &src));
                run.v = Gc::as_ptr(gc) as *const E as usize;
                run.completed = true;
                run.contents_ok = Some(gc.len() == n && gc.iter().enumerate().all(|(i, e)| e.ok(i)));
                root.keep.push(Gc::erase(gc));
            }));
            run.panicked = r.is_err();
        });
    }
    fn statik<E: Elem + Copy>(cx: &mut Cx, n: usize) {
        let l = (0, 1, size_of::<E>(), align_of::<E>());
        builder_case(cx, "slice", true, l, n, false, false, Act::Copy(n), |mc, root, run| {
            let src: Vec<E> = (0..n).map(E::make).collect();
            let r = catch_unwind(AssertUnwindSafe(|| {
                let gc = on(|| gc_arena::GcSlice::new_slice_static(mc, &src));
                run.v = Gc::as_ptr(gc) as *const E as usize;
                run.completed = true;
                run.contents_ok = Some(gc.len() == n && gc.iter().enumerate().all(|(i, e)| e.ok(i)));
                root.keep.push(Gc::erase(gc));
            }));
            run.panicked = r.is_err();
        });
    }
    for n in [0usize, 1, 2, 5, 6] {
        collectable::<u8>(cx, n);
        collectable::<u32>(cx, n);
        collectable::<()>(cx, n);
        statik::<u8>(cx, n);
        statik::<u32>(cx, n);
        statik::<()>(cx, n);
        statik::<V64<64>>(cx, n);
        statik::<V4096<1>>(cx, n);
        builder_case(cx, "str", false, (0, 1, 1, 1), n, false, false, Act::Copy(n), |mc, root, run| {
            let s: String = (0..n).map(|i| (b'a' + (i % 26) as u8) as char).collect();
            let r = catch_unwind(AssertUnwindSafe(|| {
                let gc = on(|| gc_arena::GcStr::new_str(mc, &s));
                run.v = Gc::as_ptr(gc) as *const u8 as usize;
                run.completed = true;
                run.contents_ok = Some(&*gc == s.as_str());
                root.keep.push(Gc::erase(gc));
            }));
            run.panicked = r.is_err();
        });
    }
}
