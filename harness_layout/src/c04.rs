//! C04 cases (clause "every allocation is returned to the global allocator with exactly the layout
//! it was requested with"): alloc / release pairing of one Gc block over every release history —
//! swept as garbage, released as a dead weak shell, released by dropping the arena in each
//! collection phase, released by an abandoned builder — for zero-sized and ordinary values,
//! empty and non-empty slices / strs / slices with header, and the `ZstCache` dummy.
//!
//! Query `pair <history> sized <ms> <ma> <vs> <va>` / `pair <history> dst <kind> <hs> <ha> <es> <ea>
//! <len>`; answer `alloc <size> <align> release <size> <align>` as seen by the recording
//! allocator (whose own monitors — layout mismatch on release, double free, release of a wrong
//! address, outstanding block, guard bytes — are the implementation-side judgement).

use crate::common::*;
use crate::track::{self, Ev};
use crate::types::*;
use gc_arena::zst_cache::ZstCache;
use gc_arena::{Gc, GcBuilder, GcSliceBuilder, GcSliceWithHeaderBuilder, GcStrBuilder, Mutation, Static};
use std::mem::{align_of, size_of};

const HISTORIES: &[&str] = &["sweep", "weak-shell", "drop-sleep", "drop-marked", "drop-sweep", "builder"];

/// `make` allocates one complete value and returns it erased; `abandon` (if the kind has a
/// builder) creates a builder and drops it at once.
fn pair_family(
    cx: &mut Cx,
    qtail: String,
    make: impl for<'gc> Fn(&Mutation<'gc>) -> Gc<'gc, ()>,
    abandon: Option<&dyn Fn()>,
) {
    for &hist in HISTORIES {
        if hist == "builder" && abandon.is_none() {
            continue;
        }
        run_case(cx, format!("pair {hist} {qtail}"), |out| {
            let mut arena = on(|| A::new(|_| Root::default()));
            // a few ordinary neighbours, so that lists / sweeps have something else to walk over
            arena.mutate_root(|mc, root| {
                for i in 0..2u64 {
                    let g = on(|| Gc::new(mc, i));
                    root.keep.push(Gc::erase(g));
                }
            });
            let n0 = track::log_len();
            let mut blk: Option<(usize, usize, usize)> = None;
            if hist == "builder" {
                on(|| (abandon.unwrap())());
                blk = allocs_since(n0).first().copied();
            } else {
                arena.mutate_root(|mc, root| {
                    let g = on(|| make(mc));
                    blk = allocs_since(n0).first().copied();
                    match hist {
                        "sweep" => {}
                        "weak-shell" => root.weak.push(Gc::downgrade(g)),
                        _ => root.keep.push(g),
                    }
                });
            }
            let Some((base, size, align)) = blk else {
                out.answer = Some("no-allocation".into());
                on(|| drop(arena));
                return;
            };
            out.base = base;
            let released = |since: usize| -> Vec<(usize, usize)> {
                track::events_since(since)
                    .into_iter()
                    .filter_map(|e| match e {
                        Ev::Dealloc { addr, size, align, .. } if addr == base => Some((size, align)),
                        _ => None,
                    })
                    .collect()
            };
            match hist {
                "sweep" => {
                    on(|| arena.finish_cycle());
                    out.check(released(n0).len() == 1, || "garbage was not released by a full collection cycle".into());
                }
                "weak-shell" => {
                    on(|| arena.finish_cycle());
                    out.check(released(n0).is_empty(), || "a block still referenced by a weak pointer was released".into());
                    arena.mutate_root(|_, root| root.weak.clear());
                    on(|| arena.finish_cycle());
                    on(|| arena.finish_cycle());
                    out.check(released(n0).len() == 1, || "the dead shell was not released after its last weak pointer went away".into());
                }
                "drop-marked" => {
                    on(|| {
                        arena.finish_marking();
                    });
                }
                "drop-sweep" => {
                    on(|| {
                        if let Some(m) = arena.finish_marking() {
                            m.start_sweeping();
                        }
                    });
                }
                _ => {}
            }
            on(|| drop(arena));
            let rel = released(n0);
            out.answer = Some(match rel.as_slice() {
                [(rs, ra)] => format!("alloc {size} {align} release {rs} {ra}"),
                [] => format!("alloc {size} {align} release none"),
                _ => format!("alloc {size} {align} release {}-times", rel.len()),
            });
        });
    }
}

pub fn pair_sized<T: Pod>(cx: &mut Cx) {
    let q = format!("sized 0 1 {} {}", size_of::<T>(), align_of::<T>());
    pair_family(cx, q, |mc| Gc::erase(Gc::new_static(mc, T::sample())), Some(&|| drop(GcBuilder::<Static<T>>::new())));
}

pub fn pair_slice<E: Pod>(cx: &mut Cx, len: usize) {
    let q = format!("dst slice 0 1 {} {} {len}", size_of::<E>(), align_of::<E>());
    pair_family(
        cx,
        q,
        |mc| Gc::erase(GcSliceBuilder::<Static<E>>::new(len).write_slice_with(mc, |_| Static(E::sample()))),
        Some(&|| drop(GcSliceBuilder::<Static<E>>::new(len))),
    );
}

pub fn pair_swh<H: Pod, E: Pod>(cx: &mut Cx, len: usize) {
    let q = format!("dst swh {} {} {} {} {len}", size_of::<H>(), align_of::<H>(), size_of::<E>(), align_of::<E>());
    pair_family(
        cx,
        q,
        |mc| {
            Gc::erase(
                GcSliceWithHeaderBuilder::<Static<H>, Static<E>>::new(len)
                    .write_header(Static(H::sample()))
                    .write_slice_with(mc, |_| Static(E::sample())),
            )
        },
        Some(&|| drop(GcSliceWithHeaderBuilder::<Static<H>, Static<E>>::new(len))),
    );
}

pub fn pair_str(cx: &mut Cx, len: usize) {
    let q = format!("dst str 0 1 1 1 {len}");
    let text: String = (0..len).map(|i| (b'a' + (i % 26) as u8) as char).collect();
    pair_family(cx, q, |mc| Gc::erase(gc_arena::GcStr::new_str(mc, &text)), Some(&|| drop(GcStrBuilder::new(len))));
}

/// The dummy allocation of `ZstCache::<32>::new`: a zero-sized value aligned 32.
pub fn pair_zst_cache(cx: &mut Cx) {
    pair_family(cx, "sized 0 1 0 32".to_string(), |mc| ZstCache::<32>::new(mc).cached_ptr(), None);
    pair_family(cx, "sized 0 1 0 1".to_string(), |mc| ZstCache::<1>::new(mc).cached_ptr(), None);
}
