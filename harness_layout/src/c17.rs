//! C17 cases: sized values, per-value metadata types, slices / strs / slices with header,
//! overflowing lengths, the tagged vtable pointer, and `std::alloc::Layout` itself.

use crate::common::*;
use crate::track;
use crate::types::*;
use gc_arena::gc::{Fat, GcKind, Thin};
use gc_arena::meta::{TypeMeta, UnitPtrMeta, UnitTypeMeta};
use gc_arena::slice::{SlicePtrMeta, SliceWithHeaderPtrMeta, StrPtrMeta};
use gc_arena::{
    Collect, Gc, GcBuilder, GcSliceBuilder, GcSliceWithHeaderBuilder, GcStrBuilder, Mutation, SliceWithHeader, Static,
};
use std::alloc::Layout;
use std::mem::{align_of, size_of};
use std::panic::{AssertUnwindSafe, catch_unwind};

// ------------------------------------------------------------------------------------------
// the public allocation entry points: `X::new(..)` and `X::new_with_type_meta::<TM>(..)`
// ------------------------------------------------------------------------------------------
pub trait Route: 'static {
    type M: 'static;
    type TM: TypeMeta<TypeMetadata = Self::M>;
    fn sized<'gc, W: Collect<'gc>>() -> GcBuilder<'gc, W, Self::M, UnitPtrMeta>;
    fn swh<'gc, H: Collect<'gc>, E: Collect<'gc>>(len: usize) -> GcSliceWithHeaderBuilder<'gc, H, E, Self::M>;
    fn slice<'gc, E: Collect<'gc>>(len: usize) -> GcSliceBuilder<'gc, E, Self::M>;
    fn strb<'gc>(len: usize) -> GcStrBuilder<'gc, Self::M>;
}
/// `GcBuilder::new`, `GcSliceWithHeaderBuilder::new`, `GcSliceBuilder::new`, `GcStrBuilder::new`.
pub struct ViaNew;
impl Route for ViaNew {
    type M = ();
    type TM = UnitTypeMeta;
    fn sized<'gc, W: Collect<'gc>>() -> GcBuilder<'gc, W, (), UnitPtrMeta> {
        GcBuilder::new()
    }
    fn swh<'gc, H: Collect<'gc>, E: Collect<'gc>>(len: usize) -> GcSliceWithHeaderBuilder<'gc, H, E, ()> {
        GcSliceWithHeaderBuilder::new(len)
    }
    fn slice<'gc, E: Collect<'gc>>(len: usize) -> GcSliceBuilder<'gc, E, ()> {
        GcSliceBuilder::new(len)
    }
    fn strb<'gc>(len: usize) -> GcStrBuilder<'gc, ()> {
        GcStrBuilder::new(len)
    }
}
/// The four `new_with_type_meta::<TM>` entry points, with a non-unit per-type metadata.
pub struct ViaTm;
impl Route for ViaTm {
    type M = u32;
    type TM = Tm7;
    fn sized<'gc, W: Collect<'gc>>() -> GcBuilder<'gc, W, u32, UnitPtrMeta> {
        GcBuilder::new_with_type_meta::<Tm7>()
    }
    fn swh<'gc, H: Collect<'gc>, E: Collect<'gc>>(len: usize) -> GcSliceWithHeaderBuilder<'gc, H, E, u32> {
        GcSliceWithHeaderBuilder::new_with_type_meta::<Tm7>(len)
    }
    fn slice<'gc, E: Collect<'gc>>(len: usize) -> GcSliceBuilder<'gc, E, u32> {
        GcSliceBuilder::new_with_type_meta::<Tm7>(len)
    }
    fn strb<'gc>(len: usize) -> GcStrBuilder<'gc, u32> {
        GcStrBuilder::new_with_type_meta::<Tm7>(len)
    }
}

// ------------------------------------------------------------------------------------------
// sized values (metadata `()`)
// ------------------------------------------------------------------------------------------
fn sized_typed<'gc, W: Collect<'gc> + 'gc, R: Route>(mc: &Mutation<'gc>, root: &mut Root<'gc>, st: &mut LayoutSt, out: &mut CaseOut) {
    let vs = size_of::<W>();
    track::set_fill(FILL_A);
    let n0 = track::log_len();
    let mut b1 = on(|| R::sized::<W>());
    let v1 = b1.as_ptr() as usize;
    match observe(n0, v1, FILL_A) {
        Ok(o) => st.obs.push(o),
        Err(e) => out.mon(e),
    }
    let n1 = track::log_len();
    on(|| drop(b1));
    st.drop1 = track::events_since(n1);

    track::set_fill(FILL_B);
    let n2 = track::log_len();
    let mut b2 = on(|| R::sized::<W>());
    let v2 = b2.as_ptr() as usize;
    match observe(n2, v2, FILL_B) {
        Ok(o) => st.obs.push(o),
        Err(e) => out.mon(e),
    }
    if st.obs.len() == 2 {
        let o = &st.obs[1];
        st.prefix = snapshot(o.base, v2.clamp(o.base, o.base + o.size));
        if v2 >= o.base && v2 - o.base + vs <= o.size {
            write_pattern(v2, vs, st.seed);
            st.pattern = true;
        }
    }
    let gc: Gc<'gc, W, GcKind<Fat, R::M, UnitPtrMeta>> = on(|| unsafe { b2.assume_init(mc) });
    // raw pointer / thin / fat round trips
    let p = Gc::as_ptr(gc);
    out.check(p as usize == v2, || "Gc::as_ptr differs from the builder pointer".into());
    let g2 = unsafe { Gc::<'gc, W, GcKind<Fat, R::M, UnitPtrMeta>>::from_ptr_with_kind(p) };
    out.check(Gc::ptr_eq(gc, g2) && Gc::as_ptr(g2) == p, || "Gc::from_ptr(Gc::as_ptr(gc)) is a different pointer".into());
    let thin = Gc::as_thin(gc);
    out.check(Gc::as_thin_ptr(thin) as usize == v2, || "as_thin changed the address".into());
    let fat = Gc::as_fat(thin);
    out.check(Gc::as_ptr(fat) == p && Gc::as_ptr(thin) == p, || "as_fat(as_thin(gc)) changed the address".into());
    let thin2 = unsafe { Gc::<'gc, W, GcKind<Thin, R::M, UnitPtrMeta>>::from_thin_ptr_with_kind(Gc::as_thin_ptr(thin)) };
    out.check(Gc::as_ptr(thin2) == p, || "from_thin_ptr_with_kind(as_thin_ptr) changed the address".into());
    root.keep.push(Gc::erase(gc));
}

pub fn sized_case<W: for<'a> Collect<'a> + 'static>(cx: &mut Cx) {
    sized_case_r::<W, ViaNew>(cx)
}

pub fn sized_case_r<W: for<'a> Collect<'a> + 'static, R: Route>(cx: &mut Cx) {
    let (vs, va) = (size_of::<W>(), align_of::<W>());
    let hdr = (cx.hdr_size, cx.hdr_align);
    let seed = cx.seed ^ cx.rand();
    run_case(cx, format!("sized 0 1 {vs} {va}"), |out| {
        let mut st = LayoutSt { value_size: vs, value_align: va, meta_align: 1, seed, ..Default::default() };
        let mut arena = on(|| A::new(|_| Root::default()));
        arena.mutate_root(|mc, root| sized_typed::<W, R>(mc, root, &mut st, out));
        let Some(head) = layout_answer_head(hdr, &mut st, out) else {
            on(|| drop(arena));
            return;
        };
        let rel = layout_lifecycle(&mut arena, &st, out, |_, _| {});
        on(|| drop(arena));
        out.answer = Some(format!("{head} {rel}"));
    });
}

// ------------------------------------------------------------------------------------------
// every per-value metadata type: a user AllocMeta for a sized value storing `Mt`
// ------------------------------------------------------------------------------------------
pub struct Tm7;
impl TypeMeta for Tm7 {
    type TypeMetadata = u32;
    const TYPE_METADATA: &'static u32 = &7;
}

fn meta_typed<'gc, Mt: Pod, W: Collect<'gc> + 'gc>(
    mc: &Mutation<'gc>,
    root: &mut Root<'gc>,
    st: &mut LayoutSt,
    out: &mut CaseOut,
) -> usize {
    let vs = size_of::<W>();
    track::set_fill(FILL_A);
    let n0 = track::log_len();
    let mut b1 = on(|| unsafe { GcBuilder::<W, u32, CM<Mt>>::new_with_type_and_ptr_meta::<Tm7>(Mt::sample()) });
    let v1 = b1.as_ptr() as usize;
    match observe(n0, v1, FILL_A) {
        Ok(o) => st.obs.push(o),
        Err(e) => out.mon(e),
    }
    let n1 = track::log_len();
    on(|| drop(b1));
    st.drop1 = track::events_since(n1);

    track::set_fill(FILL_B);
    let n2 = track::log_len();
    let mut b2 = on(|| unsafe { GcBuilder::<W, u32, CM<Mt>>::new_with_type_and_ptr_meta::<Tm7>(Mt::sample()) });
    let v2 = b2.as_ptr() as usize;
    match observe(n2, v2, FILL_B) {
        Ok(o) => st.obs.push(o),
        Err(e) => out.mon(e),
    }
    if st.obs.len() == 2 {
        let o = &st.obs[1];
        st.prefix = snapshot(o.base, v2.clamp(o.base, o.base + o.size));
        if v2 >= o.base && v2 - o.base + vs <= o.size {
            write_pattern(v2, vs, st.seed);
            st.pattern = true;
        }
    }
    let gc = on(|| unsafe { b2.assume_init(mc) });
    out.check(*Gc::type_metadata(gc) == 7, || "Gc::type_metadata lost the per-type metadata".into());
    let thin = Gc::as_thin(gc);
    out.check(Gc::as_thin_ptr(thin) as usize == v2, || "as_thin changed the address".into());
    // reading through the thin pointer makes the crate read the stored metadata back
    let before = METAS.with(|m| m.borrow().len());
    let p = Gc::as_ptr(thin);
    out.check(p as usize == v2, || "fat pointer rebuilt from the thin one has a different address".into());
    check_meta_readback::<Mt>(before, b'F', out, "thin -> fat conversion");
    let fat = Gc::as_fat(thin);
    out.check(Gc::as_ptr(fat) as usize == v2, || "as_fat changed the address".into());
    root.keep.push(Gc::erase(gc));
    Gc::as_thin_ptr(thin) as usize
}

fn check_meta_readback<Mt: Pod>(since: usize, which: u8, out: &mut CaseOut, what: &str) {
    let sample = Mt::sample();
    let want: Vec<u8> = (0..size_of::<Mt>()).map(|i| unsafe { *((&sample as *const Mt as *const u8).add(i)) }).collect();
    let seen: Vec<Vec<u8>> = METAS.with(|m| m.borrow()[since..].iter().filter(|x| x.0 == which).map(|x| x.1.clone()).collect());
    out.check(!seen.is_empty(), || format!("{what}: the crate did not pass any metadata to the PtrMeta impl"));
    for s in seen {
        out.check(s == want, || format!("{what}: metadata read back {:02x?} differs from the metadata stored {:02x?}", s, want));
    }
}

pub fn meta_case<Mt: Pod, W: for<'a> Collect<'a> + 'static>(cx: &mut Cx) {
    let (vs, va, ms, ma) = (size_of::<W>(), align_of::<W>(), size_of::<Mt>(), align_of::<Mt>());
    let hdr = (cx.hdr_size, cx.hdr_align);
    let seed = cx.seed ^ cx.rand();
    run_case(cx, format!("sized {ms} {ma} {vs} {va}"), |out| {
        let mut st = LayoutSt { value_size: vs, value_align: va, meta_size: ms, meta_align: ma, seed, ..Default::default() };
        let mut arena = on(|| A::new(|_| Root::default()));
        let thin_ptr = arena.mutate_root(|mc, root| meta_typed::<Mt, W>(mc, root, &mut st, out));
        let Some(head) = layout_answer_head(hdr, &mut st, out) else {
            on(|| drop(arena));
            return;
        };
        let rel = layout_lifecycle(&mut arena, &st, out, |arena, out| {
            arena.mutate(|_, _| {
                let thin = unsafe { Gc::<W, GcKind<Thin, u32, CM<Mt>>>::from_thin_ptr_with_kind(thin_ptr as *const W) };
                let before = METAS.with(|m| m.borrow().len());
                let p = Gc::as_ptr(thin);
                out.check(p as usize == thin_ptr, || "thin -> fat after a collection changed the address".into());
                check_meta_readback::<Mt>(before, b'F', out, "thin -> fat after a collection");
            });
        });
        // the dealloc path recomputed the layout from the metadata it read back
        let nlay = METAS.with(|m| m.borrow().iter().filter(|x| x.0 == b'L').count());
        out.check(nlay >= 4, || format!("AllocMeta::layout was called {nlay} times (2 allocations + 2 releases expected)"));
        check_meta_readback::<Mt>(0, b'L', out, "layout recomputation on release");
        on(|| drop(arena));
        out.answer = Some(format!("{head} {rel}"));
    });
}

// ------------------------------------------------------------------------------------------
// slices, strs, slices with header
// ------------------------------------------------------------------------------------------
#[derive(Clone, Copy, PartialEq, Eq)]
pub enum DstKind {
    Slice,
    Str,
    Swh,
    SliceDirect,
    StrDirect,
    SwhDirect,
}
impl DstKind {
    fn name(self) -> &'static str {
        match self {
            DstKind::Slice => "slice",
            DstKind::Str => "str",
            DstKind::Swh => "swh",
            DstKind::SliceDirect => "slice-direct",
            DstKind::StrDirect => "str-direct",
            DstKind::SwhDirect => "swh-direct",
        }
    }
}

/// Size of `SliceWithHeader<H, E>` of length `len` by the `#[repr(C)]` rules, computed here
/// independently of the crate (and later compared with the compiler's `size_of_val`).
fn reprc_size(hs: usize, ha: usize, es: usize, ea: usize, len: usize) -> Option<(usize, usize, usize)> {
    let sliceoff = round_up(hs, ea);
    let valign = ha.max(ea);
    let raw = sliceoff.checked_add(es.checked_mul(len)?)?;
    let vsize = raw.checked_add(valign - 1)? / valign * valign;
    Some((vsize, valign, sliceoff))
}

struct DstSt {
    lay: LayoutSt,
    sliceoff_obs: Option<usize>,
    len_obs: Vec<usize>,
    vsize_obs: Option<usize>,
    valign_obs: Option<usize>,
    thin_ptr: usize,
}

fn dst_observe_pair(
    st: &mut DstSt,
    out: &mut CaseOut,
    mut make: impl FnMut() -> usize, // creates a builder, returns the value pointer, keeps it in the caller
    mut drop_first: impl FnMut(),
) {
    track::set_fill(FILL_A);
    let n0 = track::log_len();
    let v1 = make();
    match observe(n0, v1, FILL_A) {
        Ok(o) => st.lay.obs.push(o),
        Err(e) => out.mon(e),
    }
    let n1 = track::log_len();
    drop_first();
    st.lay.drop1 = track::events_since(n1);
    track::set_fill(FILL_B);
    let n2 = track::log_len();
    let v2 = make();
    match observe(n2, v2, FILL_B) {
        Ok(o) => st.lay.obs.push(o),
        Err(e) => out.mon(e),
    }
    if st.lay.obs.len() == 2 {
        let o = &st.lay.obs[1];
        st.lay.prefix = snapshot(o.base, v2.clamp(o.base, o.base + o.size));
        let vs = st.lay.value_size;
        if v2 >= o.base && v2 - o.base + vs <= o.size {
            write_pattern(v2, vs, st.lay.seed);
            st.lay.pattern = true;
        }
    }
}

fn swh_typed<'gc, H: Pod, E: Pod, R: Route>(mc: &Mutation<'gc>, root: &mut Root<'gc>, len: usize, st: &mut DstSt, out: &mut CaseOut) {
    let mut slot: Vec<GcSliceWithHeaderBuilder<'gc, Static<H>, Static<E>, R::M>> = Vec::new();
    {
        let slot_ptr: *mut Vec<_> = &mut slot;
        dst_observe_pair(
            st,
            out,
            || {
                let mut b = on(|| R::swh::<Static<H>, Static<E>>(len));
                let v = b.header_ptr() as usize;
                unsafe { (*slot_ptr).push(b) };
                v
            },
            || {
                let b = unsafe { (*slot_ptr).pop().unwrap() };
                on(|| drop(b));
            },
        );
    }
    let b2 = slot.pop().unwrap();
    let mut b2 = b2.unwrap_static_header();
    let v2 = b2.header_ptr() as usize;
    out.check(v2 == st.lay.v(), || "unwrap_static_header changed the pointer".into());
    let sb = unsafe { b2.assume_init() };
    let mut sb = sb.unwrap_static_element();
    let sp = sb.slice_ptr();
    st.sliceoff_obs = Some((sp as *mut E as usize).wrapping_sub(v2));
    st.len_obs.push(sp.len());
    let gc = on(|| unsafe { sb.assume_init(mc) });
    let r: &SliceWithHeader<H, E> = gc.as_ref();
    st.vsize_obs = Some(std::mem::size_of_val(r));
    st.valign_obs = Some(std::mem::align_of_val(r));
    st.len_obs.push(r.slice.len());
    let p = Gc::as_ptr(gc);
    out.check(p as *const () as usize == v2, || "Gc::as_ptr differs from the builder pointer".into());
    let g2 = unsafe { Gc::<SliceWithHeader<H, E>, GcKind<Fat, R::M, SliceWithHeaderPtrMeta>>::from_ptr_with_kind(p) };
    out.check(Gc::ptr_eq(gc, g2), || "from_ptr_with_kind(as_ptr) is a different pointer".into());
    let thin = Gc::as_thin(gc);
    out.check(Gc::as_thin_ptr(thin) as usize == v2, || "as_thin changed the address".into());
    st.len_obs.push(thin.slice.len());
    let fat = Gc::as_fat(thin);
    let fp = Gc::as_ptr(fat);
    out.check(fp as *const () as usize == v2, || "as_fat(as_thin(gc)) changed the address".into());
    st.len_obs.push(unsafe { (&*fp).slice.len() });
    st.thin_ptr = Gc::as_thin_ptr(thin) as usize;
    root.keep.push(Gc::erase(gc));
}

fn slice_typed<'gc, E: Pod, R: Route>(mc: &Mutation<'gc>, root: &mut Root<'gc>, len: usize, st: &mut DstSt, out: &mut CaseOut) {
    let mut slot: Vec<GcSliceBuilder<'gc, Static<E>, R::M>> = Vec::new();
    {
        let slot_ptr: *mut Vec<_> = &mut slot;
        dst_observe_pair(
            st,
            out,
            || {
                let mut b = on(|| R::slice::<Static<E>>(len));
                let v = b.slice_ptr() as *mut E as usize;
                unsafe { (*slot_ptr).push(b) };
                v
            },
            || {
                let b = unsafe { (*slot_ptr).pop().unwrap() };
                on(|| drop(b));
            },
        );
    }
    let mut b2 = slot.pop().unwrap().unwrap_static();
    let sp = b2.slice_ptr();
    let v2 = sp as *mut E as usize;
    out.check(v2 == st.lay.v(), || "unwrap_static changed the pointer".into());
    st.sliceoff_obs = Some(0);
    st.len_obs.push(sp.len());
    let gc = on(|| unsafe { b2.assume_init(mc) });
    let r: &[E] = gc.as_ref();
    st.vsize_obs = Some(std::mem::size_of_val(r));
    st.valign_obs = Some(std::mem::align_of_val(r));
    st.len_obs.push(r.len());
    let p = Gc::as_ptr(gc);
    out.check(p as *const () as usize == v2, || "Gc::as_ptr differs from the builder pointer".into());
    let g2 = unsafe { Gc::<[E], GcKind<Fat, R::M, SlicePtrMeta>>::from_ptr_with_kind(p) };
    out.check(Gc::ptr_eq(gc, g2), || "from_ptr_with_kind(as_ptr) is a different pointer".into());
    let thin = Gc::as_thin(gc);
    out.check(Gc::as_thin_ptr(thin) as usize == v2, || "as_thin changed the address".into());
    st.len_obs.push(thin.len());
    let fat = Gc::as_fat(thin);
    let fp = Gc::as_ptr(fat);
    out.check(fp as *const () as usize == v2, || "as_fat(as_thin(gc)) changed the address".into());
    st.len_obs.push(fp.len());
    st.thin_ptr = Gc::as_thin_ptr(thin) as usize;
    root.keep.push(Gc::erase(gc));
}

fn str_typed<'gc, R: Route>(mc: &Mutation<'gc>, root: &mut Root<'gc>, len: usize, st: &mut DstSt, out: &mut CaseOut) {
    let mut slot: Vec<GcStrBuilder<'gc, R::M>> = Vec::new();
    {
        let slot_ptr: *mut Vec<_> = &mut slot;
        dst_observe_pair(
            st,
            out,
            || {
                let mut b = on(|| R::strb(len));
                let v = b.str_ptr() as *mut u8 as usize;
                unsafe { (*slot_ptr).push(b) };
                v
            },
            || {
                let b = unsafe { (*slot_ptr).pop().unwrap() };
                on(|| drop(b));
            },
        );
    }
    let mut b2 = slot.pop().unwrap();
    let sp = b2.str_ptr();
    let v2 = sp as *mut u8 as usize;
    st.sliceoff_obs = Some(0);
    st.len_obs.push((sp as *mut [u8]).len());
    let gc = on(|| unsafe { b2.assume_init(mc) });
    let r: &str = gc.as_ref();
    st.vsize_obs = Some(std::mem::size_of_val(r));
    st.valign_obs = Some(std::mem::align_of_val(r));
    st.len_obs.push(r.len());
    let p = Gc::as_ptr(gc);
    out.check(p as *const () as usize == v2, || "Gc::as_ptr differs from the builder pointer".into());
    let g2 = unsafe { Gc::<str, GcKind<Fat, R::M, StrPtrMeta>>::from_ptr_with_kind(p) };
    out.check(Gc::ptr_eq(gc, g2), || "from_ptr_with_kind(as_ptr) is a different pointer".into());
    let thin = Gc::as_thin(gc);
    out.check(Gc::as_thin_ptr(thin) as usize == v2, || "as_thin changed the address".into());
    st.len_obs.push(thin.len());
    let fat = Gc::as_fat(thin);
    let fp = Gc::as_ptr(fat);
    out.check(fp as *const () as usize == v2, || "as_fat(as_thin(gc)) changed the address".into());
    st.len_obs.push((fp as *const [u8]).len());
    st.thin_ptr = Gc::as_thin_ptr(thin) as usize;
    root.keep.push(Gc::erase(gc));
}

fn dst_run(
    cx: &mut Cx,
    kind: DstKind,
    lays: (usize, usize, usize, usize),
    len: usize,
    typed: impl for<'gc> FnOnce(&Mutation<'gc>, &mut Root<'gc>, &mut DstSt, &mut CaseOut),
    recheck_len: impl Fn(usize) -> usize,
) {
    let (hs, ha, es, ea) = lays;
    let hdr = (cx.hdr_size, cx.hdr_align);
    let word = size_of::<usize>();
    let seed = cx.seed ^ cx.rand();
    run_case(cx, format!("dst {} {hs} {ha} {es} {ea} {len}", kind.name()), |out| {
        let Some((vsize, valign, sliceoff)) = reprc_size(hs, ha, es, ea, len) else {
            out.answer = Some("harness-overflow".into());
            return;
        };
        let mut st = DstSt {
            lay: LayoutSt { value_size: vsize, value_align: valign, meta_size: word, meta_align: word, seed, ..Default::default() },
            sliceoff_obs: None,
            len_obs: vec![],
            vsize_obs: None,
            valign_obs: None,
            thin_ptr: 0,
        };
        let mut arena = on(|| A::new(|_| Root::default()));
        arena.mutate_root(|mc, root| typed(mc, root, &mut st, out));
        let Some(head) = layout_answer_head(hdr, &mut st.lay, out) else {
            on(|| drop(arena));
            return;
        };
        // the length stored in front of the header is the requested length
        if let Some(mo) = st.lay.meta_off {
            if mo + word <= st.lay.prefix.len() {
                let mut b = [0u8; 8];
                b[..word].copy_from_slice(&st.lay.prefix[mo..mo + word]);
                let stored = u64::from_ne_bytes(b) as usize;
                out.check(stored == len, || format!("metadata slot holds {stored}, requested length {len}"));
            }
        }
        for (i, l) in st.len_obs.iter().enumerate() {
            out.check(*l == len, || format!("length metadata not reconstructed: observation {i} gave {l}, expected {len}"));
        }
        out.check(st.vsize_obs == Some(vsize) && st.valign_obs == Some(valign), || {
            format!(
                "size_of_val/align_of_val = {:?}/{:?}, repr(C) rule gives {vsize}/{valign} (harness bug or compiler change)",
                st.vsize_obs, st.valign_obs
            )
        });
        out.check(st.sliceoff_obs == Some(sliceoff), || format!("slice field at offset {:?}, repr(C) rule gives {sliceoff}", st.sliceoff_obs));
        let thin_ptr = st.thin_ptr;
        let rel = layout_lifecycle(&mut arena, &st.lay, out, |_, out| {
            let l = recheck_len(thin_ptr);
            out.check(l == len, || format!("length read through the thin pointer after a collection is {l}, expected {len}"));
        });
        on(|| drop(arena));
        out.answer = Some(format!(
            "{head} {rel} vsize {} valign {} sliceoff {}",
            st.vsize_obs.map(|x| x.to_string()).unwrap_or("?".into()),
            st.valign_obs.map(|x| x.to_string()).unwrap_or("?".into()),
            st.sliceoff_obs.map(|x| x.to_string()).unwrap_or("?".into())
        ));
    });
}

pub fn swh_case<H: Pod, E: Pod>(cx: &mut Cx, len: usize) {
    swh_case_r::<H, E, ViaNew>(cx, len)
}

pub fn swh_case_r<H: Pod, E: Pod, R: Route>(cx: &mut Cx, len: usize) {
    let lays = (size_of::<H>(), align_of::<H>(), size_of::<E>(), align_of::<E>());
    dst_run(cx, DstKind::Swh, lays, len, |mc, root, st, out| swh_typed::<H, E, R>(mc, root, len, st, out), |tp| {
        gc_arena::arena::rootless_mutate(|_| {
            let thin = unsafe { Gc::<SliceWithHeader<H, E>, GcKind<Thin, R::M, SliceWithHeaderPtrMeta>>::from_thin_ptr_with_kind(tp as *const H) };
            thin.slice.len()
        })
    });
}

pub fn slice_case<E: Pod>(cx: &mut Cx, len: usize) {
    slice_case_r::<E, ViaNew>(cx, len)
}

pub fn slice_case_r<E: Pod, R: Route>(cx: &mut Cx, len: usize) {
    let lays = (0, 1, size_of::<E>(), align_of::<E>());
    dst_run(cx, DstKind::Slice, lays, len, |mc, root, st, out| slice_typed::<E, R>(mc, root, len, st, out), |tp| {
        gc_arena::arena::rootless_mutate(|_| {
            let thin = unsafe { Gc::<[E], GcKind<Thin, R::M, SlicePtrMeta>>::from_thin_ptr_with_kind(tp as *const ()) };
            thin.len()
        })
    });
}

pub fn str_case(cx: &mut Cx, len: usize) {
    str_case_r::<ViaNew>(cx, len)
}

pub fn str_case_r<R: Route>(cx: &mut Cx, len: usize) {
    dst_run(cx, DstKind::Str, (0, 1, 1, 1), len, |mc, root, st, out| str_typed::<R>(mc, root, len, st, out), |tp| {
        gc_arena::arena::rootless_mutate(|_| {
            let thin = unsafe { Gc::<str, GcKind<Thin, R::M, StrPtrMeta>>::from_thin_ptr_with_kind(tp as *const ()) };
            thin.len()
        })
    });
}

// ------------------------------------------------------------------------------------------
// every `AllocMeta` impl reached DIRECTLY through the public entry point
// `GcBuilder::<T, M, P>::new_with_type_and_ptr_meta::<TM>(ptr_meta)`: `P::layout` decides the
// block both on allocation and on release (the crate's own slice / str constructors allocate
// through `SliceWithHeaderPtrMeta` and only re-label the pointer, so `SlicePtrMeta::layout` and
// `StrPtrMeta::layout` are reached on this path only)
// ------------------------------------------------------------------------------------------
fn swh_direct_typed<'gc, H: Pod, E: Pod, R: Route>(mc: &Mutation<'gc>, root: &mut Root<'gc>, len: usize, st: &mut DstSt, out: &mut CaseOut) {
    type T<H, E> = SliceWithHeader<Static<H>, Static<E>>;
    let mut slot: Vec<GcBuilder<'gc, T<H, E>, R::M, SliceWithHeaderPtrMeta>> = Vec::new();
    {
        let slot_ptr: *mut Vec<_> = &mut slot;
        dst_observe_pair(
            st,
            out,
            || {
                let mut b = on(|| unsafe { GcBuilder::<T<H, E>, R::M, SliceWithHeaderPtrMeta>::new_with_type_and_ptr_meta::<R::TM>(len) });
                let v = b.as_ptr() as *mut () as usize;
                unsafe { (*slot_ptr).push(b) };
                v
            },
            || {
                let b = unsafe { (*slot_ptr).pop().unwrap() };
                on(|| drop(b));
            },
        );
    }
    let mut b2 = slot.pop().unwrap();
    let bp = b2.as_ptr();
    let v2 = bp as *mut () as usize;
    let sp: *mut [Static<E>] = unsafe { &raw mut (*bp).slice };
    st.sliceoff_obs = Some((sp as *mut E as usize).wrapping_sub(v2));
    st.len_obs.push(sp.len());
    let gc = on(|| unsafe { b2.assume_init(mc) });
    let r: &T<H, E> = gc.as_ref();
    st.vsize_obs = Some(std::mem::size_of_val(r));
    st.valign_obs = Some(std::mem::align_of_val(r));
    st.len_obs.push(r.slice.len());
    let p = Gc::as_ptr(gc);
    out.check(p as *const () as usize == v2, || "Gc::as_ptr differs from the builder pointer".into());
    let g2 = unsafe { Gc::<T<H, E>, GcKind<Fat, R::M, SliceWithHeaderPtrMeta>>::from_ptr_with_kind(p) };
    out.check(Gc::ptr_eq(gc, g2), || "from_ptr_with_kind(as_ptr) is a different pointer".into());
    let thin = Gc::as_thin(gc);
    out.check(Gc::as_thin_ptr(thin) as usize == v2, || "as_thin changed the address".into());
    st.len_obs.push(thin.slice.len());
    let fat = Gc::as_fat(thin);
    let fp = Gc::as_ptr(fat);
    out.check(fp as *const () as usize == v2, || "as_fat(as_thin(gc)) changed the address".into());
    st.len_obs.push(unsafe { (&*fp).slice.len() });
    st.thin_ptr = Gc::as_thin_ptr(thin) as usize;
    root.keep.push(Gc::erase(gc));
}

fn slice_direct_typed<'gc, E: Pod, R: Route>(mc: &Mutation<'gc>, root: &mut Root<'gc>, len: usize, st: &mut DstSt, out: &mut CaseOut) {
    let mut slot: Vec<GcBuilder<'gc, [Static<E>], R::M, SlicePtrMeta>> = Vec::new();
    {
        let slot_ptr: *mut Vec<_> = &mut slot;
        dst_observe_pair(
            st,
            out,
            || {
                let mut b = on(|| unsafe { GcBuilder::<[Static<E>], R::M, SlicePtrMeta>::new_with_type_and_ptr_meta::<R::TM>(len) });
                let v = b.as_ptr() as *mut E as usize;
                unsafe { (*slot_ptr).push(b) };
                v
            },
            || {
                let b = unsafe { (*slot_ptr).pop().unwrap() };
                on(|| drop(b));
            },
        );
    }
    let mut b2 = slot.pop().unwrap();
    let sp = b2.as_ptr();
    let v2 = sp as *mut E as usize;
    st.sliceoff_obs = Some(0);
    st.len_obs.push(sp.len());
    let gc = on(|| unsafe { b2.assume_init(mc) });
    let r: &[Static<E>] = gc.as_ref();
    st.vsize_obs = Some(std::mem::size_of_val(r));
    st.valign_obs = Some(std::mem::align_of_val(r));
    st.len_obs.push(r.len());
    let p = Gc::as_ptr(gc);
    out.check(p as *const () as usize == v2, || "Gc::as_ptr differs from the builder pointer".into());
    let g2 = unsafe { Gc::<[Static<E>], GcKind<Fat, R::M, SlicePtrMeta>>::from_ptr_with_kind(p) };
    out.check(Gc::ptr_eq(gc, g2), || "from_ptr_with_kind(as_ptr) is a different pointer".into());
    let thin = Gc::as_thin(gc);
    out.check(Gc::as_thin_ptr(thin) as usize == v2, || "as_thin changed the address".into());
    st.len_obs.push(thin.len());
    let fat = Gc::as_fat(thin);
    let fp = Gc::as_ptr(fat);
    out.check(fp as *const () as usize == v2, || "as_fat(as_thin(gc)) changed the address".into());
    st.len_obs.push(fp.len());
    st.thin_ptr = Gc::as_thin_ptr(thin) as usize;
    root.keep.push(Gc::erase(gc));
}

fn str_direct_typed<'gc, R: Route>(mc: &Mutation<'gc>, root: &mut Root<'gc>, len: usize, st: &mut DstSt, out: &mut CaseOut) {
    let mut slot: Vec<GcBuilder<'gc, str, R::M, StrPtrMeta>> = Vec::new();
    {
        let slot_ptr: *mut Vec<_> = &mut slot;
        dst_observe_pair(
            st,
            out,
            || {
                let mut b = on(|| unsafe { GcBuilder::<str, R::M, StrPtrMeta>::new_with_type_and_ptr_meta::<R::TM>(len) });
                let v = b.as_ptr() as *mut u8 as usize;
                unsafe { (*slot_ptr).push(b) };
                v
            },
            || {
                let b = unsafe { (*slot_ptr).pop().unwrap() };
                on(|| drop(b));
            },
        );
    }
    let mut b2 = slot.pop().unwrap();
    let sp = b2.as_ptr();
    let v2 = sp as *mut u8 as usize;
    st.sliceoff_obs = Some(0);
    st.len_obs.push((sp as *mut [u8]).len());
    let gc = on(|| unsafe { b2.assume_init(mc) });
    let r: &str = gc.as_ref();
    st.vsize_obs = Some(std::mem::size_of_val(r));
    st.valign_obs = Some(std::mem::align_of_val(r));
    st.len_obs.push(r.len());
    let p = Gc::as_ptr(gc);
    out.check(p as *const () as usize == v2, || "Gc::as_ptr differs from the builder pointer".into());
    let g2 = unsafe { Gc::<str, GcKind<Fat, R::M, StrPtrMeta>>::from_ptr_with_kind(p) };
    out.check(Gc::ptr_eq(gc, g2), || "from_ptr_with_kind(as_ptr) is a different pointer".into());
    let thin = Gc::as_thin(gc);
    out.check(Gc::as_thin_ptr(thin) as usize == v2, || "as_thin changed the address".into());
    st.len_obs.push(thin.len());
    let fat = Gc::as_fat(thin);
    let fp = Gc::as_ptr(fat);
    out.check(fp as *const () as usize == v2, || "as_fat(as_thin(gc)) changed the address".into());
    st.len_obs.push((fp as *const [u8]).len());
    st.thin_ptr = Gc::as_thin_ptr(thin) as usize;
    root.keep.push(Gc::erase(gc));
}

pub fn swh_direct_case<H: Pod, E: Pod, R: Route>(cx: &mut Cx, len: usize) {
    let lays = (size_of::<H>(), align_of::<H>(), size_of::<E>(), align_of::<E>());
    dst_run(cx, DstKind::SwhDirect, lays, len, |mc, root, st, out| swh_direct_typed::<H, E, R>(mc, root, len, st, out), |tp| {
        gc_arena::arena::rootless_mutate(|_| {
            let thin = unsafe {
                Gc::<SliceWithHeader<Static<H>, Static<E>>, GcKind<Thin, R::M, SliceWithHeaderPtrMeta>>::from_thin_ptr_with_kind(tp as *const Static<H>)
            };
            thin.slice.len()
        })
    });
}

pub fn slice_direct_case<E: Pod, R: Route>(cx: &mut Cx, len: usize) {
    let lays = (0, 1, size_of::<E>(), align_of::<E>());
    dst_run(cx, DstKind::SliceDirect, lays, len, |mc, root, st, out| slice_direct_typed::<E, R>(mc, root, len, st, out), |tp| {
        gc_arena::arena::rootless_mutate(|_| {
            let thin = unsafe { Gc::<[Static<E>], GcKind<Thin, R::M, SlicePtrMeta>>::from_thin_ptr_with_kind(tp as *const ()) };
            thin.len()
        })
    });
}

pub fn str_direct_case<R: Route>(cx: &mut Cx, len: usize) {
    dst_run(cx, DstKind::StrDirect, (0, 1, 1, 1), len, |mc, root, st, out| str_direct_typed::<R>(mc, root, len, st, out), |tp| {
        gc_arena::arena::rootless_mutate(|_| {
            let thin = unsafe { Gc::<str, GcKind<Thin, R::M, StrPtrMeta>>::from_thin_ptr_with_kind(tp as *const ()) };
            thin.len()
        })
    });
}

// ------------------------------------------------------------------------------------------
// lengths that cannot have a layout: the builder must panic before allocating anything
// ------------------------------------------------------------------------------------------
pub fn overflow_case<H: Pod, E: Pod>(cx: &mut Cx, kind: DstKind, len: usize) {
    let (hs, ha, es, ea) = match kind {
        DstKind::Swh | DstKind::SwhDirect => (size_of::<H>(), align_of::<H>(), size_of::<E>(), align_of::<E>()),
        _ => (0, 1, size_of::<E>(), align_of::<E>()),
    };
    let min_align = cx.hdr_align.max(2);
    run_case(cx, format!("dst {} {hs} {ha} {es} {ea} {len}", kind.name()), |out| {
        let n0 = track::log_len();
        let r = catch_unwind(AssertUnwindSafe(|| {
            gc_arena::arena::rootless_mutate(|_mc| match kind {
                DstKind::Swh => {
                    let b = on(|| GcSliceWithHeaderBuilder::<Static<H>, Static<E>>::new(len));
                    on(|| drop(b));
                }
                DstKind::Slice => {
                    let b = on(|| GcSliceBuilder::<Static<E>>::new(len));
                    on(|| drop(b));
                }
                DstKind::Str => {
                    let b = on(|| GcStrBuilder::new(len));
                    on(|| drop(b));
                }
                DstKind::SwhDirect => {
                    let b = on(|| unsafe {
                        GcBuilder::<SliceWithHeader<Static<H>, Static<E>>, (), SliceWithHeaderPtrMeta>::new_with_type_and_ptr_meta::<UnitTypeMeta>(len)
                    });
                    on(|| drop(b));
                }
                DstKind::SliceDirect => {
                    let b = on(|| unsafe { GcBuilder::<[Static<E>], (), SlicePtrMeta>::new_with_type_and_ptr_meta::<UnitTypeMeta>(len) });
                    on(|| drop(b));
                }
                DstKind::StrDirect => {
                    let b = on(|| unsafe { GcBuilder::<str, (), StrPtrMeta>::new_with_type_and_ptr_meta::<UnitTypeMeta>(len) });
                    on(|| drop(b));
                }
            })
        }));
        let panicked = r.is_err();
        drop(r);
        // std formats the panic message (an align-1 String) before the panic hook runs; a Gc
        // block is at least as aligned as the GcHeader
        let allocs: Vec<_> = allocs_since(n0).into_iter().filter(|a| a.2 >= min_align).collect();
        if panicked && allocs.is_empty() {
            let msg = last_panic_msg();
            out.check(msg.contains("no layout"), || format!("panicked with an unexpected message: {msg}"));
            out.answer = Some("none".into());
        } else if let Some((_, size, align)) = allocs.first() {
            if panicked {
                out.mon(format!("allocated size {size} align {align} and then panicked: {}", last_panic_msg()));
            }
            out.answer = Some(format!("alloc {size} {align} (length without a layout was accepted)"));
        } else {
            out.answer = Some("no-alloc-no-panic".into());
        }
    });
}

// ------------------------------------------------------------------------------------------
// the tagged vtable pointer
// ------------------------------------------------------------------------------------------
fn header_words(v: usize, hs: usize) -> Vec<usize> {
    let w = size_of::<usize>();
    (0..hs / w).map(|i| unsafe { *((v - hs + i * w) as *const usize) }).collect()
}

/// Observe the raw header word of one object in every state the public API can put it in.
pub fn tag_cases<W: for<'a> Collect<'a> + 'static>(cx: &mut Cx, needs_trace: bool) {
    let hs = cx.hdr_size;
    // (state name, colour, live)
    let states: &[(&str, usize, bool)] = &[
        ("fresh-builder", 0, false),
        ("linked-white", 0, true),
        ("marked-black", 3, true),
        ("barrier-gray", 2, true),
        ("weak-only-marked", 1, true),
        ("weak-only-swept", 0, false),
        ("weak-only-remarked", 1, false),
    ];
    // the vtable address: the non-null word of a fresh builder's header, minus the needs_trace flag
    let mut vt_index = 0usize;
    let mut vtable = 0usize;
    {
        track::begin_case();
        IN_CASE.with(|c| c.set(true));
        // a crate that cannot even allocate this type is reported by the cases below (vtable 0)
        let _ = catch_unwind(AssertUnwindSafe(|| {
            gc_arena::arena::rootless_mutate(|_mc| {
                let mut b = GcBuilder::<W>::new();
                let v = b.as_ptr() as usize;
                let ws = header_words(v, hs);
                vt_index = ws.iter().position(|w| *w != 0).unwrap_or(0);
                vtable = ws.get(vt_index).copied().unwrap_or(0).wrapping_sub(if needs_trace { 4 } else { 0 });
            })
        }));
        IN_CASE.with(|c| c.set(false));
        let _ = track::end_case();
    }
    for &(name, color, live) in states {
        if name == "barrier-gray" && !needs_trace {
            continue; // a barrier on a non-tracing object is another property's business (C10)
        }
        let nt = needs_trace as usize;
        run_case(cx, format!("tag {vtable} {color} {nt} {}", live as usize), |out| {
            // a vtable address that is not 16-aligned is rejected by the model (`bad-query`), which
            // shows up as a disagreement; it is not by itself an implementation failure
            let mut arena = on(|| A::new(|_| Root::default()));
            let mut v = 0usize;
            let mut word = 0usize;
            arena.mutate_root(|mc, root| {
                let mut b = on(|| GcBuilder::<W>::new());
                v = b.as_ptr() as usize;
                if name == "fresh-builder" {
                    word = header_words(v, hs)[vt_index];
                    on(|| drop(b));
                    return;
                }
                write_pattern(v, size_of::<W>(), 1);
                let gc = on(|| unsafe { b.assume_init(mc) });
                if name.starts_with("weak-only") {
                    root.weak.push(Gc::downgrade(Gc::erase(gc)));
                } else {
                    root.keep.push(Gc::erase(gc));
                }
                if name == "linked-white" {
                    word = header_words(v, hs)[vt_index];
                }
            });
            match name {
                "marked-black" | "weak-only-marked" => {
                    on(|| {
                        arena.finish_marking();
                    });
                    word = header_words(v, hs)[vt_index];
                }
                "barrier-gray" => {
                    on(|| {
                        arena.finish_marking();
                    });
                    arena.mutate(|mc, root| {
                        on(|| {
                            Gc::write(mc, root.keep[0]);
                        })
                    });
                    word = header_words(v, hs)[vt_index];
                }
                "weak-only-swept" => {
                    on(|| arena.finish_cycle());
                    word = header_words(v, hs)[vt_index];
                }
                "weak-only-remarked" => {
                    on(|| arena.finish_cycle());
                    on(|| {
                        arena.finish_marking();
                    });
                    word = header_words(v, hs)[vt_index];
                }
                _ => {}
            }
            on(|| drop(arena));
            out.answer = Some(format!("word {word} vtable {vtable} color {color} nt {nt} live {}", live as usize));
        });
    }
}

// ------------------------------------------------------------------------------------------
// std::alloc::Layout itself
// ------------------------------------------------------------------------------------------
fn show_layout(r: Result<Layout, std::alloc::LayoutError>) -> String {
    match r {
        Ok(l) => format!("ok {} {}", l.size(), l.align()),
        Err(_) => "none".into(),
    }
}

pub fn layout_from(cx: &mut Cx, size: usize, align: usize) {
    run_case(cx, format!("L from {size} {align}"), |out| {
        out.answer = Some(show_layout(Layout::from_size_align(size, align)));
    });
}

pub fn layout_array<E>(cx: &mut Cx, n: usize) {
    let (es, ea) = (size_of::<E>(), align_of::<E>());
    run_case(cx, format!("L array {es} {ea} {n}"), |out| {
        out.answer = Some(show_layout(Layout::array::<E>(n)));
    });
}

pub fn layout_extend(cx: &mut Cx, a: Layout, b: Layout) {
    run_case(cx, format!("L extend {} {} {} {}", a.size(), a.align(), b.size(), b.align()), |out| {
        out.answer = Some(match a.extend(b) {
            Ok((l, off)) => format!("ok {} {} {off}", l.size(), l.align()),
            Err(_) => "none".into(),
        });
    });
}

pub fn layout_pad(cx: &mut Cx, a: Layout) {
    run_case(cx, format!("L pad {} {}", a.size(), a.align()), |out| {
        let p = a.pad_to_align();
        out.answer = Some(format!("ok {} {}", p.size(), p.align()));
    });
}
