#!/usr/bin/env python3
"""remutate.py [<seeded id> ...] — re-run the mutation table.

For every seeded change under /verif/seeded/<id>/ (or the ones named): apply patch.diff to /repo
(`git apply`, with `--3way` as a fall-back when the tree has moved on), run the quick check of each
property listed in meta.json `checks` (default: the property named by the directory prefix), expect
exit 1 with a VIOLATION line from at least one of them, and undo the change straight afterwards
(`git checkout -- .`).  Never commits anything in /repo.  Evidence files written while a seeded
change is applied are restored from git afterwards (they must describe the unchanged tree).

Prints one line per seeded change:  <id>  CAUGHT by Cxx[ (no-failing-input-found)] | MISSED | PATCH-DOES-NOT-APPLY
Exit status 0 iff every applicable change is caught.
"""
import fcntl
import json
import os
import re
import subprocess
import sys

ROOT = os.path.dirname(os.path.dirname(os.path.abspath(__file__)))
REPO = "/repo"


def sh(cmd, **kw):
    return subprocess.run(cmd, stdout=subprocess.PIPE, stderr=subprocess.STDOUT, text=True, **kw)


def main():
    if sh(["git", "-C", REPO, "status", "--porcelain"]).stdout.strip():
        print("refusing to run: /repo has uncommitted changes")
        return 2
    names = sys.argv[1:] or sorted(os.listdir(os.path.join(ROOT, "seeded")))
    bad = 0
    for name in names:
        d = os.path.join(ROOT, "seeded", name)
        patch = os.path.join(d, "patch.diff")
        if not os.path.exists(patch):
            continue
        meta = json.load(open(os.path.join(d, "meta.json")))
        checks = meta.get("checks") or [name[:3]]
        # one lock section per seeded change, so that other locked users of /repo take turns
        lockf = open("/tmp/repo.lock", "w")
        fcntl.flock(lockf, fcntl.LOCK_EX)
        ok = sh(["git", "-C", REPO, "apply", "--check", patch]).returncode == 0
        applied = False
        if ok:
            applied = sh(["git", "-C", REPO, "apply", patch]).returncode == 0
        else:
            applied = sh(["git", "-C", REPO, "apply", "--3way", patch]).returncode == 0
        if not applied:
            sh(["git", "-C", REPO, "checkout", "--", "."])
            sh(["git", "-C", REPO, "reset", "-q", "--hard", "HEAD"])
            print(f"{name:48s} PATCH-DOES-NOT-APPLY")
            fcntl.flock(lockf, fcntl.LOCK_UN); lockf.close()
            continue
        caught = []
        try:
            for c in checks:
                r = sh([os.path.join(ROOT, "check"), c, "--tier", "quick"], cwd=ROOT)
                lines = [l for l in r.stdout.splitlines() if l.startswith("VIOLATION")]
                if r.returncode == 1 and lines:
                    nf = all(l.rstrip().endswith("no-failing-input-found") for l in lines)
                    caught.append(c + (" (no-failing-input-found)" if nf else ""))
        finally:
            sh(["git", "-C", REPO, "reset", "-q", "HEAD", "--", "."])
            sh(["git", "-C", REPO, "checkout", "--", "."])
        if sh(["git", "-C", REPO, "status", "--porcelain"]).stdout.strip():
            print("ERROR: /repo not clean after undoing", name)
            return 2
        fcntl.flock(lockf, fcntl.LOCK_UN)
        lockf.close()
        if caught:
            print(f"{name:48s} CAUGHT by {', '.join(caught)}")
        else:
            print(f"{name:48s} MISSED (checks run: {', '.join(checks)})")
            bad += 1
        sys.stdout.flush()
    # the evidence must describe the unchanged tree
    sh(["git", "-C", ROOT, "checkout", "--", "evidence"])
    for f in os.listdir(os.path.join(ROOT, "replays")) if os.path.isdir(os.path.join(ROOT, "replays")) else []:
        try:
            os.remove(os.path.join(ROOT, "replays", f))
        except OSError:
            pass
    return 1 if bad else 0


if __name__ == "__main__":
    sys.exit(main())
