"""
eng_conv — engine of the dynamic half of property C19 (conversions keep the object).

Tie T1 of DESIGN §C19: the Rust harness /verif/harness_conv exercises the REAL gc-arena crate (path
dependency on /repo's working tree, so edits to /repo are picked up by cargo).  For every target
kind (sized struct with a logging destructor, `[Elem; 4]`, `[Elem]` slices, `str`, `dyn Tr` through
`unsize!`, zero-sized types of alignment 1..64, a zero-sized value from a `ZstCache`) and every
conversion chain the real signatures accept (enumerated by executing them: all chains up to length
4, random longer ones in the thorough tier) it allocates a value, converts the pointer in a chosen
collector phase (Sleep / Mark / Sweep with the cursor before / behind the target) on a target that
is fresh, strongly rooted or only weakly rooted, roots the converted pointer in a slot of the
converted type (or the original, or both, or a DynamicRoot handle held outside the arena), runs a
collection schedule (two `finish_cycle`s, or many small `collect_debt` / `mark_debt` increments
with allocation noise) and observes: `ptr_eq` / `as_ptr` identity at every stage, deref reads the
original payload, survival while rooted, `upgrade` Some before / None after destruction,
destruction exactly once as the original type (destructor log type tags, block released once with
the layout it was allocated with).  It prints, per case, the query line understood by the Lean
model driver `convmodel` (lean/ConvMain.lean over GcArena.Model.Conv) and the observed answer in the
driver's canonical format.  This module builds both, runs the harness, pipes the query lines to
the model and compares line by line; it also compares the number of well-typed chains per
(target, length, start strength) and asks `rustc` directly about a few conversion chains the model
calls ill-typed / well-typed (compile probes).

    run(prop, tier, seed) -> dict         (contract: docstring of lib/vstatic.py)
    replay(prop, path)    -> dict         same, restricted to the query lines of a replay file

A problem is
  * an implementation-side monitor failure (identity, deref, survival, once / original type, block
    release, panic, harness process killed)                    -> failing_input = True
  * a disagreement between the model's prediction and the observed answer of a case
                                                                -> failing_input = True
    (the replay carries the case lines: `case <target> <chain> <placement> <schedule> <phase> <age>`
     / `zst <size> <align> <maxalign> <method>`)
  * a disagreement on the typing discipline only (chain counts, `ill` lines, compile probes)
                                                                -> failing_input = False
  * a build failure of the harness (broken /repo) or of the model -> failing_input = False.

Environment overrides (used to validate the engine against scratch mutants of /repo):
  VERIF_CONV_REPO     crate under test (default /repo).  When set to another tree the harness crate
                      is copied to /verif/work/harness_conv.<tag>/ with its path dependency rewritten
  GCV_CONV_HARNESS    harness crate directory   (default /verif/harness_conv)
  GCV_LEAN_DIR        Lean project directory    (default /verif/lean)
"""
import collections
import glob
import hashlib
import os
import re
import shutil
import subprocess
import time

ROOT = os.path.dirname(os.path.dirname(os.path.abspath(__file__)))
HARNESS_SRC = os.environ.get("GCV_CONV_HARNESS", os.path.join(ROOT, "harness_conv"))
LEAN = os.environ.get("GCV_LEAN_DIR", os.path.join(ROOT, "lean"))
WORK = os.path.join(ROOT, "work")

ENV = dict(os.environ)
ENV["CARGO_NET_OFFLINE"] = "true"
ENV.setdefault("CARGO_TERM_COLOR", "never")

MAX_RESTARTS = 12
MAX_PROBLEMS = 8          # distinct problem groups reported
MAX_LINES = 8             # failing queries carried by one replay


def _repo():
    return os.path.abspath(os.environ.get("VERIF_CONV_REPO", "/repo"))


def _run(cmd, cwd, timeout):
    try:
        p = subprocess.run(cmd, cwd=cwd, env=ENV, stdout=subprocess.PIPE, stderr=subprocess.STDOUT,
                           timeout=timeout, text=True, errors="replace")
        return p.returncode, p.stdout
    except subprocess.TimeoutExpired as e:
        return 124, f"timeout after {timeout}s: {e}"
    except OSError as e:
        return 127, repr(e)


def _build_problem(name, what, out):
    tail = [l for l in out.strip().splitlines() if l.strip()][-25:]
    return dict(name=name, text=f"{what} (see replay header for the build log tail)", failing_input=False,
                header=[what] + tail, lines=[])


def harness_dir():
    """The crate to build: HARNESS_SRC itself for /repo, else a scratch copy pointing at the override."""
    repo = _repo()
    if repo == "/repo":
        return HARNESS_SRC
    tag = re.sub(r"[^A-Za-z0-9]+", "-", repo).strip("-")[-40:] + "-" + hashlib.sha1(repo.encode()).hexdigest()[:6]
    d = os.path.join(WORK, f"harness_conv.{tag}")
    os.makedirs(os.path.join(d, "src"), exist_ok=True)
    os.makedirs(os.path.join(d, ".cargo"), exist_ok=True)
    for f in os.listdir(os.path.join(HARNESS_SRC, "src")):
        src, dst = os.path.join(HARNESS_SRC, "src", f), os.path.join(d, "src", f)
        if not os.path.exists(dst) or open(src).read() != open(dst).read():
            shutil.copy(src, dst)
    shutil.copy(os.path.join(HARNESS_SRC, ".cargo", "config.toml"), os.path.join(d, ".cargo", "config.toml"))
    toml = open(os.path.join(HARNESS_SRC, "Cargo.toml")).read().replace('path = "/repo"', f'path = "{repo}"')
    tp = os.path.join(d, "Cargo.toml")
    if not os.path.exists(tp) or open(tp).read() != toml:
        open(tp, "w").write(toml)
    return d


def build_harness():
    d = harness_dir()
    lock = os.path.join(d, "Cargo.lock")
    src = os.path.join(_repo(), "Cargo.lock")
    try:
        if os.path.exists(src) and not os.path.exists(lock):
            shutil.copy(src, lock)
    except OSError:
        pass
    t = time.time()
    rc, out = _run(["cargo", "build", "--offline"], d, 3000)
    exe = os.path.join(d, "target", "debug", "gcverif-conv")
    return rc == 0 and os.path.exists(exe), out, exe, round(time.time() - t, 1)


def build_model():
    t = time.time()
    rc, out = 1, ""
    for attempt in range(6):
        rc, out = _run(["lake", "build", "convmodel"], LEAN, 3000)
        if rc == 0 or "already running" not in out.lower():
            break
        time.sleep(10)
    exe = os.path.join(LEAN, ".lake", "build", "bin", "convmodel")
    return rc == 0 and os.path.exists(exe), out, exe, round(time.time() - t, 1)


class Case:
    __slots__ = ("idx", "query", "answer", "monitors", "info", "ended")

    def __init__(self, idx, query):
        self.idx = idx
        self.query = query
        self.answer = None
        self.monitors = None
        self.info = ""
        self.ended = False


def run_harness(exe, tier, seed, only=None, replay=None, tag="run"):
    """Run the harness (restarting after a crash); returns (config, cases, counts, crashes, secs)."""
    os.makedirs(WORK, exist_ok=True)
    cases, crashes, counts = [], [], []
    config = None
    start = 0
    t = time.time()
    for attempt in range(MAX_RESTARTS + 1):
        outp = os.path.join(WORK, f"conv-{tag}-{attempt}.out")
        cmd = [exe, "--tier", tier, "--seed", str(seed), "--start", str(start)]
        if only:
            cmd += ["--only", only]
        if replay:
            cmd += ["--replay", replay]
        with open(outp, "w") as f:
            try:
                p = subprocess.run(cmd, env=ENV, stdout=f, stderr=subprocess.PIPE, timeout=3000, text=True, errors="replace")
                rc, err = p.returncode, p.stderr[-2000:]
            except subprocess.TimeoutExpired:
                rc, err = 124, "timeout"
        cur = None
        finished = False
        if attempt > 0:
            counts = []          # the N lines are printed again by a restarted process
        with open(outp, errors="replace") as f:
            for line in f:
                t_ = line[:2]
                if t_ == "S ":
                    i, _, q = line[2:].rstrip("\n").partition(" ")
                    cur = Case(int(i), q)
                    cases.append(cur)
                elif t_ == "A ":
                    if cur is not None:
                        cur.answer = line[2:].rstrip("\n").partition(" ")[2]
                elif t_ == "E ":
                    if cur is not None:
                        cur.ended = True
                elif t_ == "I ":
                    if cur is not None:
                        cur.info = line[2:].rstrip("\n").partition(" ")[2]
                elif t_ == "M ":
                    if cur is not None:
                        if cur.monitors is None:
                            cur.monitors = []
                        cur.monitors.append(line[2:].rstrip("\n").partition(" ")[2])
                elif t_ == "N ":
                    counts.append(line[2:].split())
                elif t_ == "C ":
                    config = line[2:].rstrip("\n")
                elif t_ == "Z ":
                    finished = True
        if finished and rc == 0:
            break
        last = cases[-1] if cases else None
        if last is not None and not last.ended:
            crashes.append((last, rc, err))
            if last.monitors is None:
                last.monitors = []
            last.monitors.append(f"harness process died in this case (exit status {rc}) {err.strip()[-300:]}")
            start = last.idx
        else:
            crashes.append((None, rc, err))
            break
    return config, cases, counts, crashes, round(time.time() - t, 1)


def ask_model(exe, queries):
    inp = os.path.join(WORK, "conv-model.in")
    with open(inp, "w") as f:
        for q in queries:
            f.write(q + "\n")
    t = time.time()
    with open(inp) as f:
        p = subprocess.run([exe], stdin=f, stdout=subprocess.PIPE, stderr=subprocess.PIPE, text=True, timeout=3000)
    return p.returncode, p.stdout.splitlines(), p.stderr[-2000:], round(time.time() - t, 1)


# ----------------------------------------------------------------------------------------------
# compile probes: rustc decides whether a chain is well typed
# ----------------------------------------------------------------------------------------------
PROBE_HEAD = """#![allow(unused)]
use gc_arena::{Gc, GcWeak, GcSlice, GcStr, Mutation, DynamicRootSet, Rootable, unsize};
use std::fmt::Debug;
fn probe<'gc>(mc: &Mutation<'gc>, set: DynamicRootSet<'gc>) {
    let p: Gc<'gc, u32> = Gc::new_static(mc, 5u32);
    let s: GcSlice<'gc, u8> = GcSlice::new_slice_static(mc, &[1, 2, 3]);
    let t: GcStr<'gc> = GcStr::new_str(mc, "abc");
"""
# name -> (body, the model query that corresponds, expected model answer prefix)
PROBES = {
    "slice-erase_kind-as_thin": ("let d = Gc::erase_kind(s); let _ = Gc::as_thin(d);", "ill slice:3 erase_kind,as_thin s", "ill-typed 1"),
    "str-erase_kind-as_thin": ("let d = Gc::erase_kind(t); let _ = Gc::as_thin(d);", "ill str:3 erase_kind,as_thin s", "ill-typed 1"),
    "sized-unsize-as_thin": ("let d = unsize!(p => dyn Debug); let _ = Gc::as_thin(d);", "ill sized unsize,as_thin s", "ill-typed 1"),
    "slice-as_thin-erase_kind": ("let d = Gc::as_thin(s); let _ = Gc::erase_kind(d);", "ill slice:3 as_thin,erase_kind s", "ill-typed 1"),
    "sized-downgrade-erase_kind": ("let w = Gc::downgrade(p); let _ = GcWeak::erase_kind(w);", "ill sized downgrade,erase_kind s", "ill-typed 1"),
    "slice-unsize": ("let _ = unsize!(s => [u8]);", "ill slice:3 unsize s", "ill-typed 0"),
    "slice-cast": ("let _ = unsafe { Gc::cast::<[u8]>(s) };", "ill slice:3 cast s", "ill-typed 0"),
    "slice-stash": ("let h = set.stash::<Rootable![[u8]]>(mc, s);", "ill slice:3 stash s", "ill-typed 0"),
    "sized-as_thin-stash": ("let d = Gc::as_thin(p); let h = set.stash::<Rootable![u32]>(mc, d);", "ill sized as_thin,stash s", "ill-typed 1"),
    "sized-downgrade-as_thin": ("let w = Gc::downgrade(p); let _ = Gc::as_thin(w);", "ill sized downgrade,as_thin s", "ill-typed 1"),
    "sized-as_fat": ("let _ = Gc::as_fat(p);", "ill sized as_fat s", "ill-typed 0"),
    "sized-upgrade": ("let _ = p.upgrade(mc);", "ill sized upgrade s", "ill-typed 0"),
    "sized-downgrade-downgrade": ("let w = Gc::downgrade(p); let _ = Gc::downgrade(w);", "ill sized downgrade,downgrade s", "ill-typed 1"),
    "sized-as_thin-as_thin": ("let d = Gc::as_thin(p); let _ = Gc::as_thin(d);", "ill sized as_thin,as_thin s", "ill-typed 1"),
    # well-typed counterparts
    "ok-slice-as_thin-as_fat-erase_kind-stash": (
        "let d = Gc::erase_kind(Gc::as_fat(Gc::as_thin(s))); let h = set.stash::<Rootable![[u8]]>(mc, d); let _ = set.fetch(&h);",
        "ill slice:3 as_thin,as_fat,erase_kind,stash s", "ok "),
    "ok-sized-as_thin-unsize-downgrade-erase-cast-upgrade": (
        "let d = unsize!(Gc::as_thin(p) => dyn Debug); let w = GcWeak::erase(Gc::downgrade(d)); let c = unsafe { GcWeak::cast::<u32>(w) }; let _ = c.upgrade(mc);",
        "ill sized as_thin,unsize,downgrade,erase,cast,upgrade s", "ok "),
    "ok-str-as_thin-erase-as_thin": ("let d = Gc::as_thin(Gc::erase(Gc::as_thin(t)));", "ill str:3 as_thin,erase,as_thin s", "ok "),
    "ok-sized-erase-stash": ("let h = set.stash::<Rootable![()]>(mc, Gc::erase(p)); let _ = set.fetch(&h);", "ill sized erase,stash s", "ok "),
}


def run_probes(hdir):
    """Compile each probe against the gc_arena rlib the harness was built with."""
    deps = os.path.join(hdir, "target", "debug", "deps")
    rlibs = sorted(glob.glob(os.path.join(deps, "libgc_arena-*.rlib")), key=os.path.getmtime)
    if not rlibs:
        return None, "no libgc_arena rlib in the harness target directory"
    pdir = os.path.join(WORK, "conv-probes")
    os.makedirs(pdir, exist_ok=True)
    res = {}
    for name, (body, _q, _exp) in PROBES.items():
        src = os.path.join(pdir, name + ".rs")
        with open(src, "w") as f:
            f.write(PROBE_HEAD + "    " + body + "\n}\nfn main() {}\n")
        rc, out = _run(["rustc", "--edition", "2024", "--extern", f"gc_arena={rlibs[-1]}", "-L", f"dependency={deps}",
                        "--emit=metadata", "--error-format=short", "-o", os.path.join(pdir, name + ".rmeta"), src], pdir, 120)
        res[name] = (rc == 0, out.strip().splitlines()[:3])
    return res, ""


# ----------------------------------------------------------------------------------------------
# optional: a small subset under Miri (thorough tier)
# ----------------------------------------------------------------------------------------------
def run_miri(hdir, cases, seed, per_family=4, budget_s=420):
    """Re-run a stratified sample of the cases under `cargo +nightly miri run`.  Returns
    (status string, sampled case count, list of problems)."""
    import random
    rng = random.Random(seed)
    fams = collections.OrderedDict()
    for c in cases:
        if c.query.startswith("case") and _chain_len(c.query.split()[2]) >= 3:
            fams.setdefault(_family(c.query) + "/" + c.query.split()[5], []).append(c)
    sample = []
    for f, cs in fams.items():
        sample += rng.sample(cs, min(per_family, len(cs)))
    zs = [c for c in cases if c.query.startswith("zst ")]
    sample += rng.sample(zs, min(12, len(zs)))
    if not sample:
        return "no cases", 0, []
    path = os.path.join(WORK, "conv-miri.cases")
    with open(path, "w") as f:
        for c in sample:
            f.write(c.query + "\n")
    env = dict(ENV)
    env["MIRIFLAGS"] = "-Zmiri-disable-isolation -Zmiri-ignore-leaks"   # the tracker quarantines (leaks) watched blocks
    outp = os.path.join(WORK, "conv-miri.out")
    try:
        with open(outp, "w") as f:
            p = subprocess.run(["cargo", "+nightly", "miri", "run", "--offline", "--", "--replay", path], cwd=hdir, env=env,
                               stdout=f, stderr=subprocess.PIPE, timeout=budget_s, text=True, errors="replace")
        rc, err = p.returncode, p.stderr
    except subprocess.TimeoutExpired:
        return f"skipped: did not finish within {budget_s}s", len(sample), []
    except OSError as e:
        return f"skipped: {e!r}", len(sample), []
    got, last, monitors = {}, None, []
    for line in open(outp, errors="replace"):
        if line.startswith("S "):
            last = line[2:].rstrip("\n").partition(" ")[2]
        elif line.startswith("A ") and last:
            got[last] = line[2:].rstrip("\n").partition(" ")[2]
        elif line.startswith("M ") and last:
            monitors.append((last, line[2:].rstrip("\n").partition(" ")[2]))
    problems = []
    if rc != 0 and "Undefined Behavior" not in err and not got:
        return "skipped: miri could not run offline: " + " ".join(err.strip().splitlines()[-2:])[:200], len(sample), []
    if rc != 0:
        ub = [l for l in err.splitlines() if "error" in l][:3]
        text = f"C19 under Miri: `{last}` stops with {' / '.join(ub)[:300]}"
        problems.append(dict(name="conv-miri-ub", text=text, failing_input=True, header=[text] + err.strip().splitlines()[-30:], lines=[last or ""]))
    for q, m in monitors[:3]:
        problems.append(dict(name="conv-miri-monitor", text=f"C19 under Miri: monitor fired for `{q}`: {m}", failing_input=True, header=[m], lines=[q]))
    want = {c.query: c.answer for c in sample}
    for q, a in got.items():
        if want.get(q) != a:
            problems.append(dict(name="conv-miri-diff", text=f"C19 under Miri: `{q}` answers `{a}`, natively `{want.get(q)}`", failing_input=True, header=[], lines=[q]))
            break
    return f"ran {len(got)}/{len(sample)} cases, exit {rc}", len(sample), problems


# ----------------------------------------------------------------------------------------------
_NUM = re.compile(r"0x[0-9a-f]+|\d+")


def _sig(text):
    return _NUM.sub("N", text)[:140]


def _family(query):
    w = query.split()
    if not w:
        return "?"
    if w[0] in ("case", "ill"):
        return w[0] + "-" + w[1].split(":")[0]
    return w[0]


def _chain_len(ch):
    return 0 if ch == "-" else ch.count(",") + 1


def analyse(tier, seed, config, cases, counts, crashes, model_ans, count_ans, probes, timings):
    problems = []
    groups = collections.OrderedDict()
    n_monitor_cases = n_disagree = 0
    dist_kind_len = collections.Counter()
    dist_phase_age = collections.Counter()
    dist_kind_phase = collections.Counter()
    dist_place_sched = collections.Counter()
    dist_reached = collections.Counter()
    dist_outcome = collections.Counter()
    inc_cycles = collections.Counter()
    zst = collections.Counter()
    alias = collections.Counter()
    distinct = set()
    steps_seen = collections.Counter()
    maxlen = 0
    for c, m in zip(cases, model_ans):
        w = c.query.split()
        if w[0] == "case":
            kind = w[1].split(":")[0]
            L = _chain_len(w[2])
            maxlen = max(maxlen, L)
            dist_kind_len[f"{kind}/len{L if L < 5 else '5+'}"] += 1
            dist_phase_age[f"{w[5]}/{w[6]}"] += 1
            dist_kind_phase[f"{kind}/{w[5]}"] += 1
            dist_place_sched[f"{w[3]}/{w[4]}"] += 1
            a = c.answer or ""
            dist_outcome[a.split(" ")[0] + ("" if not a.startswith("ok") else (" kept" if " keeps=1" in a else " not-kept"))] += 1
            if c.info:
                for tok in c.info.split():
                    if tok.startswith("phase="):
                        dist_reached[f"{w[5]}->{tok[6:]}"] += 1
                    elif tok.startswith("inc_cycles=") and w[4] == "inc":
                        inc_cycles[tok[11:]] += 1
            if w[2] != "-":
                distinct.add((w[1], w[2]))
                if len(steps_seen) < 64:
                    for s in w[2].split(","):
                        steps_seen[s] += 1
        elif w[0] == "zkeep":
            alias["zkeep/" + w[1] + " " + (c.answer or "")] += 1
            distinct.add((w[0], c.query))
        elif w[0] in ("alias", "prefix"):
            alias[w[0] + (("/" + w[4]) if w[0] == "alias" else "") + " " + " ".join(t for t in (c.answer or "").split() if t.startswith(("eq=", "eeq=", "ill", "upgrade")))] += 1
            distinct.add((w[0], c.query))
        elif w[0] == "zst":
            zst[(c.answer or "").split(" ")[0]] += 1
            distinct.add((w[0], c.query))
        f = _family(c.query)
        if c.monitors:
            n_monitor_cases += 1
            sig = "monitor|" + _sig(c.monitors[0])
            groups.setdefault(sig, dict(kind="monitor", cases=[]))["cases"].append((c, m))
        elif c.answer != m or not c.ended:
            n_disagree += 1
            kind = "typing" if w[0] == "ill" else "diff"
            sig = kind + "|" + _sig(f"{c.answer} / {m}")
            if sig not in groups and sum(1 for s in groups if s.startswith(kind + "|")) >= 6:
                sig = kind + "|other"
            groups.setdefault(sig, dict(kind=kind, cases=[]))["cases"].append((c, m))
    order = {"monitor": 0, "diff": 1, "typing": 2}
    ordered = sorted(groups.items(), key=lambda kv: (order[kv[1]["kind"]], -len(kv[1]["cases"])))
    for k, (sig, g) in enumerate(ordered[:MAX_PROBLEMS]):
        cs = sorted(g["cases"], key=lambda cm: (len(cm[0].query), cm[0].query))[:MAX_LINES]
        c0, m0 = cs[0]
        fam = _family(c0.query)
        if g["kind"] == "monitor":
            text = (f"C19 monitor fired on the implementation for `{c0.query}`: {c0.monitors[0]} "
                    f"[{len(g['cases'])} case(s) with this signature]")
        elif g["kind"] == "diff":
            text = (f"C19 conversion case `{c0.query}`: the implementation answers `{c0.answer}`, the model predicts `{m0}` "
                    f"[{len(g['cases'])} case(s) with this signature]")
        else:
            text = (f"C19 typing discipline: for `{c0.query}` the real signatures say `{c0.answer}`, the model says `{m0}` "
                    f"[{len(g['cases'])} case(s) with this signature]")
        header = [text, f"harness: {HARNESS_SRC} (gc-arena from {_repo()}); tier={tier} seed={seed}",
                  "the body lists the failing case lines: case <target> <chain> <placement> <schedule> <phase> <age> | "
                  "zst <size> <align> <maxalign> <method> | alias <maxalign> <t1> <t2> <rel> <chain1> <chain2> | prefix <n> <k> | zkeep <holder> <align> <maxalign> <full|inc> | ill <target> <chain> <s|w>",
                  f"replay: python3 {ROOT}/lib/eng_conv.py replay C19 <this file>"]
        lines = []
        for c, m in cs:
            header.append(f"  {c.query}")
            header.append(f"      impl : {c.answer}")
            header.append(f"      model: {m}")
            for mm in (c.monitors or [])[:4]:
                header.append(f"      MONITOR: {mm}")
            lines.append(c.query)
        name = re.sub(r"[^A-Za-z0-9]+", "-", f"conv-{g['kind']}-{fam}-{k}").strip("-")
        problems.append(dict(name=name, text=text, failing_input=(g["kind"] != "typing"), header=header, lines=lines,
                             key=re.sub(r"[^A-Za-z0-9]+", "-", sig)[:80].strip("-").lower()))
    if len(ordered) > MAX_PROBLEMS:
        rest = sum(len(g["cases"]) for _, g in ordered[MAX_PROBLEMS:])
        problems[-1]["header"].append(f"({len(ordered) - MAX_PROBLEMS} further problem groups with {rest} cases not written out)")
    # chain counts
    bad_counts = []
    for cnt, ans in zip(counts, count_ans):
        if ans != f"count {cnt[3]}":
            bad_counts.append((cnt, ans))
    if bad_counts:
        c0, a0 = bad_counts[0]
        text = (f"C19 typing discipline: the real API accepts {c0[3]} chains of length {c0[1]} from a "
                f"{'weak' if c0[2] == 'w' else 'strong'} pointer to a `{c0[0]}` target, the model says `{a0}` "
                f"[{len(bad_counts)} (target, length) pairs differ]")
        problems.append(dict(name="conv-chain-counts", text=text, failing_input=False,
                             header=[text] + [f"  {' '.join(c)} / model {a}" for c, a in bad_counts[:20]], lines=[]))
    # compile probes
    probe_summary = None
    if probes is not None:
        res, qa = probes
        probe_summary = {}
        for name, (body, q, exp) in PROBES.items():
            compiled, msg = res[name]
            model = qa.get(q, "?")
            want_ok = exp.startswith("ok")
            probe_summary[name] = dict(rustc="compiles" if compiled else "rejected", model=model.split(" final=")[0])
            if compiled != want_ok or not model.startswith(exp):
                text = (f"C19 typing probe `{name}`: rustc {'accepts' if compiled else 'rejects'} `{body}`, "
                        f"the model answers `{model}` to `{q}` (expected both to say {'well-typed' if want_ok else 'ill-typed'})")
                problems.append(dict(name="conv-probe-" + name, text=text, failing_input=False,
                                     header=[text] + list(msg), lines=[PROBE_HEAD + "    " + body + "\n}"]))
    for c, rc, err in crashes:
        if c is None:
            problems.append(dict(name="conv-harness-died", text=f"C19: the conversion harness died outside any case (exit {rc}): {err.strip()[-300:]}",
                                 failing_input=False, header=[err.strip()[-1500:]], lines=[]))
    samples = []
    seenf = set()
    for c, m in zip(cases, model_ans):
        f = _family(c.query)
        if f in seenf or not c.query.startswith(("case", "zst")):
            continue
        if c.query.startswith("case") and _chain_len(c.query.split()[2]) != 3:
            continue
        seenf.add(f)
        samples.append(dict(query=c.query, implementation=c.answer, model=m))
    rule = ("a case is one query line = (target kind and length, conversion chain, placement, schedule, collector phase, target age) "
            "or one ZstCache grid point; counted distinct and non-trivial by (target, non-empty chain) / grid point")
    summary = {
        "conv_C19": dict(
            config=config, tier=tier, seed=seed, repo=_repo(), cases=len(cases), max_chain_length=maxlen,
            kinds_x_chain_lengths=dict(sorted(dist_kind_len.items())),
            kinds_x_phases=dict(sorted(dist_kind_phase.items())),
            phase_x_age=dict(sorted(dist_phase_age.items())),
            placement_x_schedule=dict(sorted(dist_place_sched.items())),
            phase_requested_to_reached=dict(sorted(dist_reached.items())),
            incremental_schedule_cycles_reached_by_increments=dict(inc_cycles),
            outcomes=dict(dist_outcome), zst_grid=dict(zst), ptr_eq_alias_grid=dict(sorted(alias.items())),
            well_typed_chain_counts={f"{c[0]}/{c[2]}/len{c[1]}": int(c[3]) for c in counts if c[1] in ("3", "4")},
            chain_count_mismatches=len(bad_counts), compile_probes=probe_summary,
            monitor_cases=n_monitor_cases, disagreements=n_disagree, harness_crashes=len(crashes), timings_s=timings)
    }
    return dict(problems=problems, evaluations=len(cases), distinct_nontrivial=len(distinct), rule=rule, samples=samples[:8],
                programs=len(PROBES) if probes is not None else 0,
                disagreements_checked=len(model_ans) + len(count_ans) + (len(PROBES) if probes is not None else 0), summary=summary)


def _go(prop, tier, seed, only=None, replay_file=None, tag="run"):
    if prop != "C19":
        return dict(problems=[dict(name="conv-bad-prop", text=f"eng_conv does not handle {prop}", failing_input=False, header=[], lines=[])])
    timings = {}
    okh, outh, hexe, timings["build_harness"] = build_harness()
    okm, outm, mexe, timings["build_model"] = build_model()
    problems = []
    if not okh:
        problems.append(_build_problem("conv-harness-build", f"C19: the conversion harness does not build against {_repo()}'s working tree", outh))
    if not okm:
        problems.append(_build_problem("conv-model-build", f"C19: `lake build convmodel` failed in {LEAN}", outm))
    if problems:
        return dict(problems=problems, evaluations=0, distinct_nontrivial=0, disagreements_checked=0,
                    summary={"conv_C19": dict(timings_s=timings, built=False)})
    config, cases, counts, crashes, timings["harness"] = run_harness(hexe, tier, seed, only=only, replay=replay_file, tag=tag)
    if config is None or (not cases and not (only or replay_file)):
        return dict(problems=[dict(name="conv-harness-silent", text="C19: the conversion harness produced no cases",
                                   failing_input=False, header=[repr(crashes)[:1500]], lines=[])],
                    evaluations=0, distinct_nontrivial=0, disagreements_checked=0)
    probes = None
    probe_queries = []
    if not (only or replay_file):
        t = time.time()
        res, why = run_probes(harness_dir())
        timings["probes"] = round(time.time() - t, 1)
        if res is not None:
            probe_queries = [q for (_b, q, _e) in PROBES.values()]
            probes = res
        else:
            problems.append(dict(name="conv-probes", text=f"C19: typing probes not run: {why}", failing_input=False, header=[why], lines=[]))
    queries = [c.query for c in cases] + [f"count {c[0]} {c[1]} {c[2]}" for c in counts] + probe_queries
    rc, ans, err, timings["model"] = ask_model(mexe, queries)
    if rc != 0 or len(ans) != len(queries):
        return dict(problems=[dict(name="conv-model-protocol",
                                   text=f"C19: convmodel rejected the harness output (exit {rc}, {len(ans)} answers for {len(queries)} queries): {err[-300:]}",
                                   failing_input=False, header=[config or ""], lines=[])],
                    evaluations=len(cases), distinct_nontrivial=0, disagreements_checked=0)
    n, k = len(cases), len(counts)
    miri_status = None
    if tier == "thorough" and not (only or replay_file):
        t = time.time()
        miri_status, _n, mp = run_miri(harness_dir(), cases, seed)
        problems += mp
        timings["miri"] = round(time.time() - t, 1)
    if probes is not None:
        probes = (probes, dict(zip(probe_queries, ans[n + k:])))
    t = time.time()
    res = analyse(tier, seed, config, cases, counts, crashes, ans[:n], ans[n:n + k], probes, timings)
    res["problems"] = problems + res["problems"]
    if miri_status is not None:
        res["summary"]["conv_C19"]["miri_subset"] = miri_status
    timings["compare"] = round(time.time() - t, 1)
    return res


def run(prop, tier, seed):
    return _go(prop, "thorough" if tier == "thorough" else "quick", int(seed))


def replay(prop, path):
    """Re-run exactly the case lines of a replay file."""
    tier, seed = "quick", 1
    try:
        m = re.search(r"tier=(\w+) seed=(\d+)", open(path).read())
        if m:
            tier, seed = m.group(1), int(m.group(2))
    except OSError:
        pass
    return _go(prop, tier, seed, replay_file=path, tag="replay")


if __name__ == "__main__":
    import json
    import sys
    a = sys.argv[1:]
    if len(a) >= 3 and a[0] == "replay":
        r = replay(a[1], a[2])
    else:
        r = run(a[0] if a else "C19", a[1] if len(a) > 1 else "quick", int(a[2]) if len(a) > 2 else 1)
    print(json.dumps(r, indent=1)[:9000])
    print("problems:", len(r["problems"]))
