"""
eng_tables — engine for the table-based properties: C13 (write capabilities), C16 (provided
Collect impls), C19 static half (conjuring), the structural halves of C03 (call graph) and C20
(no shared state), and the brand-flow half of C12 (no function that safe code can call lets the
caller choose a brand; table BrandFlow, theorems Props/C12s, escape probes probes/gen_brandflow.py).
Tie T2 of DESIGN.md: translator + table theorems, cross-validated by compile
probes.

    run(prop, tier, seed) -> dict          (contract: see lib/vstatic.py)

What a run does, against the CURRENT working tree of the crate:

 1. builds /verif/extract (cargo, offline); macro-expands the crate (`cargo +nightly rustc
    --all-features -- -Zunpretty=expanded`, target dir under work/, nothing is written to /repo);
    runs the translator: regenerates lean/GcArena/Generated/{DerefWriteTable,CollectTable,SigTable,
    CallGraph,BrandFlow}.lean and work/tables/tables.json (the same facts, for the probe generator);
 2. compiles the import-free model files and the regenerated tables with `lean -o` into
    work/tables/lean-out (NOT into lean/.lake — `lake build GcArena.Props.<prop>` happens afterwards
    in ./check) and evaluates the model's own `violations` functions there, so that a `decide` that
    is about to fail is explained by naming the table entries (each becomes a problem with a key);
 3. C13 / C19 / C12: builds the crate as an rlib into work/probe-target (never /repo/target), generates
    the probe corpus from the tables (probes/gen_tables.py) and lets rustc decide each probe, 16 in
    parallel; accepted probes that carry a scenario are linked and run: the store is executed once per
    collector schedule (Sleeping; after finish_marking() inside mutate / inside mutate_root / inside
    mutate right after a mutate_root that touched only a root field; after K = 1..5 partial mark steps;
    Sweeping), each in a fresh arena followed by finish_cycle() x2, and C01 is judged by destructor
    flags only (stored child alive, orphan gone).  When more than three legitimate-use store probes
    fail together the barrier itself is at fault and they are reported as ONE problem naming the
    failing schedules;
 4. compares: the model's verdict on a table entry predicts rustc's verdict on the entry's attack
    probe (entry acceptable -> rejected; entry violating -> accepted and, when run, unsafe); a
    misuse probe must be rejected and a legitimate twin must compile and run safely whatever the
    table says.  A violating entry that a probe DEMONSTRATES (verdict flipped, or the run misbehaves)
    is a problem with `failing_input: True` whose replay body is that program; a violating entry
    without a demonstrating program is `failing_input: False` (./check then prints the VIOLATION line
    with `no-failing-input-found`).  (Older wording:) a violating entry … replay body is the
    client program (when one exists); a prediction / compiler mismatch is a correspondence
    failure (`failing_input: False`) unless the accepted program also demonstrates unsafety.
    C16 thorough: the extraction + completeness check is repeated for `--no-default-features`
    and each optional feature alone.

Environment overrides (used for validating the engine on mutated copies of the crate):
    VERIF_TABLES_REPO      path of the crate (default /repo)
    VERIF_TABLES_LEAN_OUT  where to write the Generated/*.lean files (default lean/GcArena/Generated)
    VERIF_TABLES_LEAN_DIR  Lean project to read Model/, Proofs/, Props/ from (default /verif/lean)
    VERIF_TABLES_ELAB=1    additionally elaborate Proofs/ + Props/<prop> against the new tables in
                           the scratch dir and report which theorems fail (summary["elab"])
"""
import concurrent.futures
import glob
import hashlib
import importlib.util
import json
import os
import re
import shutil
import subprocess
import sys
import time

ROOT = os.path.dirname(os.path.dirname(os.path.abspath(__file__)))
WORK = os.path.join(ROOT, "work")
EXTRACT = os.path.join(ROOT, "extract")
PROBES = os.path.join(ROOT, "probes")
ENV = dict(os.environ, CARGO_NET_OFFLINE="true")
NCPU = min(16, os.cpu_count() or 4)

PROPS = ("C03", "C09", "C10", "C12", "C13", "C16", "C19", "C20")
KNOWN_KEYS = {
    "proj: <T: ?Sized> DerefWrite for &T": "derefwrite-shared-ref",
}
MAX_REPLAY_LINES = 400


# Identifiers of the crate the translators look for BY NAME (a behaviour-preserving rename of one of
# them makes a table theorem fail: known false-alarm source, listed in the evidence).  Everything else
# is recognised structurally.
PINNED = {
    "C03": ["type names: Arena, MarkedArena, Context", "type-name suffix `Builder` of the builder types that implement Drop",
            "std paths counted as primitive destructors: core::ptr::drop_in_place, alloc::alloc::dealloc, core::mem::ManuallyDrop::drop, core::mem::drop, alloc::boxed::Box::from_raw",
            "indirect calls `(x.f)(..)` are matched by field name to the closures / fn items that initialise field `f` (directly, or through constructor-function parameters); fn values with another destination are targets of every indirect call"],
    "C20": ["type names: Arena, Context, Metrics", "macro names: thread_local!, lazy_static!", "allow-list of pure std constructors (Model/CallGraphM.pureExternal)"],
    "C09": ["module src/metrics.rs", "Pacing and its seven field names", "Pacing::DEFAULT, Pacing::STOP_THE_WORLD", "impl Default for Pacing returning Self::DEFAULT / Pacing::DEFAULT",
            "type name Metrics; its parameterless constructor is found structurally and evaluated through Default derives/impls, Rc/Box/Cell wrappers and nested private structs (no field or helper-struct name pinned); "
            "state cells must be numeric primitives or Pacing"],
    "C13": ["module src/barrier.rs", "Write (field __inner, #[non_exhaustive])", "traits DerefWrite, IndexWrite, Unlock (method unlock_unchecked)",
            "Write::{assume, from_static, from_mut, __from_ref_and_ptr} (constructor kinds by name)", "Write::{unlock, as_deref} and <Write as Index>::index (bodies compared token-wise), Write::as_write (structural)",
            "Gc::write: `backward_barrier(Gc::erase(<param>), None)` before `Write::assume`", "macros __field, __unlock (shape, metavariable names free)",
            "field name `cell` of the lock types; Cell/RefCell/OnceCell method names classified as readers", "std receiver paths (Box, Vec, Rc, Arc, VecDeque, BTreeMap, HashMap, hashbrown::HashMap)"],
    "C16": ["trait Collect (NEEDS_TRACE, trace), trait Trace (trace, trace_gc, trace_gc_weak; default `trace` = `if P::NEEDS_TRACE { v.trace(self) }`, names free)",
            "Gc / GcWeak leaf bodies `cc.trace_gc(Self::erase(*self))` / `trace_gc_weak`", "DynCollect::dyn_trace, TraceWrap forwarding bodies",
            "std / hashbrown / indexmap / slotmap / smallvec / enum-map container paths (Model/CollectTy.Shape)", "crate types Lock, RefLock, OnceLock, SliceWithHeader (fields header, slice), Static",
            "macros static_collect, __dyn_collect (arms: >= 1 each; `$crate::collect::DynCollect::dyn_trace(self, cc)`)"],
    "C19": ["crate type paths: gc::{Gc, GcKind, GcBuilder}, gc_weak::GcWeak, dynamic_roots::DynamicRoot, slice::{SliceWithHeader, GcSliceWithHeaderBuilder, GcSliceWithHeaderSliceBuilder, GcSliceBuilder, GcStrBuilder}, "
            "static_wrapper::Static, lock::{Lock, RefLock, OnceLock}, barrier::Write", "Rootable::Root projection", "macro unsize (shape; metavariable names free, locals `gc`, `p` fixed), __CoercePtrInternal::__coerce_unchecked"],
}
PINNED["C10"] = PINNED["C09"]
PINNED["C12"] = ["(tables engine part) " + x for x in PINNED["C16"]]


def _cfg():
    repo = os.environ.get("VERIF_TABLES_REPO") or "/repo"
    lean = os.environ.get("VERIF_TABLES_LEAN_DIR") or os.path.join(ROOT, "lean")
    gen = os.environ.get("VERIF_TABLES_LEAN_OUT") or os.path.join(lean, "GcArena", "Generated")
    tag = "" if os.path.abspath(repo) == "/repo" else "-" + hashlib.sha1(os.path.abspath(repo).encode()).hexdigest()[:8]
    tw = os.path.join(WORK, "tables" + tag)
    return dict(repo=repo, lean=lean, gen=gen, tag=tag, tw=tw,
                expand_target=os.path.join(WORK, "expand-target" + tag),
                probe_target=os.path.join(WORK, "probe-target" + tag))


def _run(cmd, cwd=None, timeout=1800, env=None):
    try:
        p = subprocess.run(cmd, cwd=cwd, env=env or ENV, stdout=subprocess.PIPE, stderr=subprocess.PIPE,
                           timeout=timeout, text=True, errors="replace")
        return p.returncode, p.stdout, p.stderr
    except subprocess.TimeoutExpired as e:
        return 124, "", f"timeout after {timeout}s: {e}"
    except OSError as e:
        return 127, "", repr(e)


def _slug(s, n=60):
    t = re.sub(r"[^a-z0-9]+", "-", s.lower()).strip("-")
    return t[:n].strip("-") or "x"


def _load_gen(file="gen_tables.py"):
    name = file[:-3] + "_probes"
    if name in sys.modules:
        return sys.modules[name]
    spec = importlib.util.spec_from_file_location(name, os.path.join(PROBES, file))
    mod = importlib.util.module_from_spec(spec)
    sys.modules[name] = mod
    spec.loader.exec_module(mod)
    return mod


# --------------------------------------------------------------------------------------------
# 1. translator
# --------------------------------------------------------------------------------------------
def build_extractor():
    lock = os.path.join(EXTRACT, "Cargo.lock")
    if not os.path.exists(lock) and os.path.exists("/repo/Cargo.lock"):
        shutil.copy("/repo/Cargo.lock", lock)
    rc, out, err = _run(["cargo", "build", "--offline"], cwd=EXTRACT, timeout=1800)
    exe = os.path.join(EXTRACT, "target", "debug", "gcverif-extract")
    return rc == 0 and os.path.exists(exe), exe, (out + err)[-3000:]


def expand(cfg, features="all"):
    """Macro-expanded crate text for a feature selection. Returns (ok, path, log)."""
    os.makedirs(cfg["tw"], exist_ok=True)
    if features == "all":
        fl = ["--all-features"]
    elif features == "default":
        fl = []
    elif features == "none":
        fl = ["--no-default-features"]
    else:
        fl = ["--no-default-features", "--features", features]
    out = os.path.join(cfg["tw"], f"expanded-{_slug(features)}.rs")
    cmd = ["cargo", "+nightly", "rustc", "--offline", "--lib"] + fl + [
        "--manifest-path", os.path.join(cfg["repo"], "Cargo.toml"), "--target-dir", cfg["expand_target"],
        "--", "-Zunpretty=expanded"]
    rc, so, se = _run(cmd, cwd=cfg["tw"], timeout=1800)
    if rc != 0 or len(so) < 1000:
        return False, out, (se or so)[-3000:]
    with open(out, "w") as f:
        f.write(so)
    return True, out, ""


def extract(cfg, exe, expanded, out_dir, json_path):
    os.makedirs(out_dir, exist_ok=True)
    rc, so, se = _run([exe, "--repo", cfg["repo"], "--expanded", expanded, "--out-dir", out_dir, "--json", json_path], timeout=300)
    if rc != 0:
        return False, (so + se)[-3000:]
    return True, ""


# --------------------------------------------------------------------------------------------
# 2. Lean evaluation in a scratch output dir
# --------------------------------------------------------------------------------------------
MODEL_OF = {
    "DerefWriteTable": ["Model/WriteCap"],
    "CollectTable": ["Model/CollectTy"],
    "SigTable": ["Model/Conjure"],
    "CallGraph": ["Model/CallGraphM"],
    "BrandFlow": ["Model/BrandFlow"],
    "PacingConsts": ["Model/Metrics"],
    "MacroImpls": ["Model/MacroImpls"],
}
PROP_TABLE = {"MT": "MacroImpls", "C09": "PacingConsts", "C10": "PacingConsts", "C12": "BrandFlow", "C13": "DerefWriteTable", "C16": "CollectTable", "C19": "SigTable", "C03": "CallGraph", "C20": "CallGraph"}
PROP_EXTRA = {"C03": ["Proofs/CallGraphDefs"], "C20": ["Proofs/CallGraphDefs"],
              # Props/C12s re-exports the untraced-static rule of the Collect table
              "C12": ["Model/CollectTy", "Generated/CollectTable", "Proofs/CollectLemmas",
                      "Model/MacroImpls", "Generated/MacroImpls", "Proofs/MacroImplsLemmas"],
              # Props/C16 also carries the template rule of the exported impl-generating macros
              # (Proofs/MacroImplsLemmas renders template instantiations as Collect-table rows: needs CollectLemmas)
              "C16": ["Proofs/CollectLemmas", "Model/MacroImpls", "Generated/MacroImpls", "Proofs/MacroImplsLemmas"]}
PROP_ELAB = {
    "C09": ["Props/C09s"],
    "C10": ["Props/C09s"],
    "C12": ["Proofs/BrandFlowLemmas", "Props/C12s"],
    "C13": ["Proofs/WriteCapLemmas", "Proofs/WriteCapBridge", "Props/C13"],
    "C16": ["Props/C16"],
    "C19": ["Props/C19s"],
    "C03": ["Props/C03s"],
    "C20": ["Props/C20s"],
}

PACING_EVAL = r'''import GcArena.Generated.PacingConsts
open GcArena GcArena.Generated
def cmpR (nm : String) (a b : Rat) : List String :=
  if a = b then [] else [s!"{nm}: source {repr a}, model {repr b}"]
def cmpN (nm : String) (a b : Nat) : List String :=
  if a = b then [] else [s!"{nm}: source {a}, model {b}"]
def cmpP (nm : String) (a b : Pacing) : List String :=
  cmpR (nm ++ ".sleep_factor") a.sleepFactor b.sleepFactor ++ cmpN (nm ++ ".min_sleep") a.minSleep b.minSleep ++
  cmpR (nm ++ ".mark_factor") a.markFactor b.markFactor ++ cmpR (nm ++ ".trace_factor") a.traceFactor b.traceFactor ++
  cmpR (nm ++ ".keep_factor") a.keepFactor b.keepFactor ++ cmpR (nm ++ ".drop_factor") a.dropFactor b.dropFactor ++
  cmpR (nm ++ ".free_factor") a.freeFactor b.freeFactor
#eval show IO Unit from do
  for s in pacingUnclassified do IO.println ("VIOL unclassified: " ++ s)
  for s in cmpP "Pacing::DEFAULT" pacingDefault Pacing.default do IO.println ("VIOL pacing: " ++ s)
  for s in cmpP "Pacing::STOP_THE_WORLD" pacingStw Pacing.stopTheWorld do IO.println ("VIOL pacing: " ++ s)
  unless defaultImplConst == "DEFAULT" do IO.println s!"VIOL default-impl: <Pacing as Default>::default returns `{defaultImplConst}`, the model assumes DEFAULT"
  -- (field mismatches of the constant the impl returns are reported once, under that constant)
  for c in metricsNewCells do
    unless c.2 = 0 do IO.println s!"VIOL metrics-new: Metrics::new().{c.1}: source {repr c.2}, model 0"
  unless metricsNewCells.length ≥ 9 do IO.println s!"VIOL metrics-new: only {metricsNewCells.length} numeric state cells found in Metrics::new(), the model has 9 counters"
  unless metricsNewPacings.length = 1 do IO.println s!"VIOL metrics-new: {metricsNewPacings.length} Pacing cells found in Metrics::new(), the model has 1"
  for c in metricsNewPacings do
    unless c.2 = Metrics.new.pacing do IO.println s!"VIOL metrics-new: Metrics::new().{c.1} is not the model's default pacing"
  IO.println s!"INFO defaultOk={decide (pacingDefault = Pacing.default)} stwOk={decide (pacingStw = Pacing.stopTheWorld)} newOk={metricsNewCells.all (fun c => c.2 = 0) && metricsNewPacings.map (·.2) == [Metrics.new.pacing]} cells={metricsNewCells.length} defaultImpl={defaultImplConst}"
'''

EVAL = {
    "MT": '''import GcArena.Generated.MacroImpls
open GcArena.MacroImpls GcArena.Generated
#eval show IO Unit from do
  for s in violations macroImpls macroImplsUnclassified do IO.println ("VIOL " ++ s)
  unless macroImpls.length ≥ 2 do IO.println s!"VIOL required: too few macro templates extracted ({macroImpls.length}/2)"
  IO.println s!"INFO rows={macroImpls.length} ok={macroImpls.all Template.ok}"
''',
    "C09": PACING_EVAL,
    "C10": PACING_EVAL,
    "C12": '''import GcArena.Generated.BrandFlow
open GcArena.BrandFlow GcArena.Generated
#eval show IO Unit from do
  for s in brandFlow.violations do IO.println ("VIOL " ++ s)
  IO.println s!"INFO ok={brandFlow.ok} sigs={brandFlow.sigs.length} callable={(brandFlow.sigs.filter Sig.callable).length} macroReachable={(brandFlow.sigs.filter (·.macroReachable)).length} introducing={(brandFlow.sigs.filter (fun s => !s.introduces.isEmpty)).length} macroCalls={brandFlow.macroCalls.length}"
''',
    "C13": '''import GcArena.Generated.DerefWriteTable
open GcArena.WriteCap GcArena.Generated
#eval show IO Unit from do
  for s in derefWriteTable.violations do IO.println ("VIOL " ++ s)
  let t := derefWriteTable
  unless (t.ctors.length ≥ 4 && t.projs.length ≥ 10 && t.unlocks.length ≥ 3 && t.lockFns.length ≥ 30 && t.cells.length ≥ 2) do
    IO.println s!"VIOL required: too few rows extracted (ctors={t.ctors.length}/4 projs={t.projs.length}/10 unlocks={t.unlocks.length}/3 lockFns={t.lockFns.length}/30 cells={t.cells.length}/2)"
  IO.println s!"INFO ok={derefWriteTable.ok} cellsStatic={derefWriteTable.cellsStatic} ctors={derefWriteTable.ctors.length} projs={derefWriteTable.projs.length} unlocks={derefWriteTable.unlocks.length} lockFns={derefWriteTable.lockFns.length} cells={derefWriteTable.cells.length}"
''',
    "C16": '''import GcArena.Generated.CollectTable
open GcArena.CollectTy GcArena.Generated
#eval show IO Unit from do
  for s in collectTable.violations do IO.println ("VIOL " ++ s)
  let es := collectTable.entries
  unless (es.length ≥ 50 && (es.filter (fun e => !e.traced.isEmpty)).length ≥ 30 && (es.filter (fun e => !e.ptrFields.isEmpty)).length ≥ 1 &&
      (es.filter (fun e => e.selfStatic || !e.staticParams.isEmpty)).length ≥ 20) do
    IO.println s!"VIOL required: too few rows extracted (entries={es.length}/50 tracing={(es.filter (fun e => !e.traced.isEmpty)).length}/30 pointer-holding={(es.filter (fun e => !e.ptrFields.isEmpty)).length}/1 static-bounded={(es.filter (fun e => e.selfStatic || !e.staticParams.isEmpty)).length}/20)"
  IO.println s!"INFO complete={collectTable.complete} untracedStatic={collectTable.untracedStatic} entries={collectTable.entries.length}"
''',
    "C19": '''import GcArena.Generated.SigTable
open GcArena.Conjure GcArena.Generated
#eval show IO Unit from do
  for s in sigTable.violations do IO.println ("VIOL " ++ s)
  unless (sigTable.sigs.length ≥ 25 && (sigTable.sigs.filter (fun s => !s.isUnsafe)).length ≥ 15) do
    IO.println s!"VIOL required: too few rows extracted (sigs={sigTable.sigs.length}/25 safe={(sigTable.sigs.filter (fun s => !s.isUnsafe)).length}/15)"
  IO.println s!"INFO ok={sigTable.ok} sigs={sigTable.sigs.length} safe={(sigTable.sigs.filter (fun s => !s.isUnsafe)).length}"
''',
    "C03": '''import GcArena.Proofs.CallGraphDefs
open GcArena.CallGraphM GcArena.Generated.CallGraph GcArena.CallGraphDefs
def nm (i : Nat) : String := ((fns[i]?).map (·.name)).getD "?"
def members (s : Nat) : List Nat := (List.range fns.length).filter (fun i => s.testBit i)
#eval show IO Unit from do
  for s in unclassified do IO.println ("VIOL unclassified: " ++ s)
  unless fns.length == adj.length do IO.println "VIOL graph: fns / adj length mismatch"
  for t in destructiveTags do
    let c := count (maskWhere fns (fun f => f.tag == t)) fns.length
    unless c ≥ 1 do IO.println s!"VIOL names: no function carries the structural tag {repr t}"
  let cl := closure adj builderDrops callbackRoots 64
  unless cl == callbackClosure do IO.println "VIOL certificate: callbackClosureCert differs from the computed closure"
  unless closedB adj builderDrops cl do IO.println "VIOL certificate: computed closure is not closed (fuel)"
  for i in members (destructive &&& cl) do IO.println s!"VIOL reach-destructive: {i} {nm i}"
  unless backClosedB adj collectorClosure do IO.println "VIOL certificate: collectorClosureCert is not backward closed"
  unless (doCollection &&& collectorClosure) == doCollection do IO.println "VIOL certificate: do_collection not in collectorClosureCert"
  for i in members collectorClosure do
    match fns[i]? with
    | some f => unless (f.tag == .doCollection || f.tag == .driverPart || exclusiveEntry f) do IO.println s!"VIOL reaches-do-collection: {i} {f.name}"
    | none => IO.println s!"VIOL reaches-do-collection: {i} ?"
  unless entersOnlyVia adj driver driverParts do IO.println "VIOL driver-part: a function tagged as private helper of the collector driver is called from outside the driver"
  for i in members driverParts do
    match fns[i]? with
    | some f => unless (!f.clientCallable && !f.isDropImpl && f.selfKind == .other) do IO.println s!"VIOL driver-part: {i} {f.name} is client-callable / a Drop impl / an Arena method"
    | none => pure ()
  unless (fns.length ≥ 300 && count callbackRoots fns.length ≥ 150 && count cl fns.length ≥ count callbackRoots fns.length + 100 &&
      count collectorClosure fns.length ≥ 2 && count destructive fns.length ≥ 3 && count builderDrops fns.length ≥ 1) do
    IO.println s!"VIOL required: too little of the call graph extracted (fns={fns.length}/300 roots={count callbackRoots fns.length}/150 closure={count cl fns.length} reachDriver={count collectorClosure fns.length}/2 destructive={count destructive fns.length}/3 builderDrops={count builderDrops fns.length}/1)"
  unless markedArenaField == "&mut Arena" do IO.println s!"VIOL marked-arena-field: {markedArenaField}"
  if constructsMarkedArena.isEmpty then IO.println "VIOL marked-arena: no constructor found"
  for i in constructsMarkedArena do
    match fns[i]? with
    | some f => unless (f.selfKind == .arena && f.recv == .refMut) do IO.println s!"VIOL constructs-marked-arena: {i} {f.name}"
    | none => pure ()
  IO.println s!"INFO fns={fns.length} roots={count callbackRoots fns.length} closure={count cl fns.length} destructive={count destructive fns.length} reachDoCollection={count collectorClosure fns.length} driverParts={count driverParts fns.length} builderDrops={count builderDrops fns.length}"
''',
    "C20": '''import GcArena.Proofs.CallGraphDefs
open GcArena.CallGraphM GcArena.Generated.CallGraph GcArena.CallGraphDefs
#eval show IO Unit from do
  for s in rawStatics do IO.println ("VIOL static: " ++ s)
  for s in expandedStatics do
    unless (s.tracingCallsite && !s.isMut) do IO.println s!"VIOL expanded-static: {s.module}::{s.name} : {s.ty} (mut={s.isMut})"
  for s in freshExternal do
    unless pureExternal s do IO.println ("VIOL fresh-external: " ++ s)
  unless (rawFilesScanned ≥ 15 && rawItemsScanned ≥ 100 && expandedStatics.length ≥ 1 && freshExternal.length ≥ 3 && freshFns.length ≥ 2 && fns.length ≥ 300) do
    IO.println s!"VIOL required: the scans covered too little (files={rawFilesScanned}/15 items={rawItemsScanned}/100 expandedStatics={expandedStatics.length}/1 freshExternal={freshExternal.length}/3 freshFns={freshFns.length}/2 fns={fns.length}/300)"
  unless count (maskWhere fns (fun f => f.tag == .contextNew)) fns.length ≥ 1 do IO.println "VIOL fresh-roots: no constructor of `Context` found"
  unless count (maskWhere fns (fun f => f.tag == .metricsNew)) fns.length ≥ 1 do IO.println "VIOL fresh-roots: no constructor of `Metrics` found"
  IO.println s!"INFO rawStatics={rawStatics.length} expandedStatics={expandedStatics.length} freshFns={freshFns.length} freshExternal={freshExternal.length}"
''',
}


def _lean_compile(src, out_root, rel, env):
    """lean -o out_root/GcArena/<rel>.olean src"""
    dst = os.path.join(out_root, "GcArena", rel + ".olean")
    os.makedirs(os.path.dirname(dst), exist_ok=True)
    if os.path.islink(dst):
        os.unlink(dst)  # never write through a link into the project's own build directory
    rc, so, se = _run(["lean", "-R", os.path.dirname(os.path.abspath(src)), "-o", dst, src], env=env, timeout=1200)
    return rc == 0, (so + se)


def lean_eval(cfg, prop, gen_dir, out_tag="main", elab=False):
    """Compile model + generated table (+ defs) into a scratch dir and run the violations script.
    Returns dict(ok, violations, info, log, elab)."""
    out_root = os.path.join(cfg["tw"], "lean-out-" + out_tag)
    os.makedirs(out_root, exist_ok=True)
    env = dict(ENV, LEAN_PATH=out_root)
    table = PROP_TABLE[prop]
    res = dict(ok=False, violations=[], info={}, log="", elab=None)
    steps = [(os.path.join(cfg["lean"], "GcArena", m + ".lean"), m) for m in MODEL_OF[table]]
    steps.append((os.path.join(gen_dir, table + ".lean"), "Generated/" + table))
    for m in PROP_EXTRA.get(prop, []):
        if m.startswith("Generated/"):
            steps.append((os.path.join(gen_dir, m.split("/", 1)[1] + ".lean"), m))
        else:
            steps.append((os.path.join(cfg["lean"], "GcArena", m + ".lean"), m))
    for src, rel in steps:
        ok, log = _lean_compile(src, out_root, rel, env)
        if not ok:
            res["log"] = f"lean failed on {rel}:\n" + log[-3000:]
            return res
    ev = os.path.join(cfg["tw"], f"Eval_{prop}_{out_tag}.lean")
    with open(ev, "w") as f:
        f.write(EVAL[prop])
    rc, so, se = _run(["lean", "-R", os.path.dirname(ev), ev], env=env, timeout=600)
    if rc != 0:
        res["log"] = "evaluation script failed:\n" + (so + se)[-3000:]
        return res
    for line in so.splitlines():
        if line.startswith("VIOL "):
            res["violations"].append(line[5:].strip())
        elif line.startswith("INFO "):
            for kv in line[5:].split():
                if "=" in kv:
                    k, v = kv.split("=", 1)
                    res["info"][k] = v
    res["ok"] = True
    if elab:
        # modules outside the tables engine (the collector model behind Proofs/WriteCapBridge) are taken
        # pre-built from the Lean project: link every .olean that was not compiled here (lean resolves a
        # module inside the first search-path root that has the package directory)
        pre = os.path.join(cfg["lean"], ".lake", "build", "lib", "lean")
        mine = {os.path.join("GcArena", m) for m in PROP_ELAB.get(prop, [])}
        for dp, _, files in os.walk(os.path.join(pre, "GcArena")):
            rel = os.path.relpath(dp, pre)
            for fn in files:
                if fn.endswith((".olean", ".olean.server", ".olean.private", ".ilean")):
                    if os.path.join(rel, fn.split(".")[0]) in mine:
                        continue  # compiled below
                    dst = os.path.join(out_root, rel, fn)
                    if not os.path.lexists(dst):
                        os.makedirs(os.path.dirname(dst), exist_ok=True)
                        try:
                            os.symlink(os.path.join(dp, fn), dst)
                        except OSError:
                            pass
        failing = []
        for rel in PROP_ELAB.get(prop, []):
            src = os.path.join(cfg["lean"], "GcArena", rel + ".lean")
            ok, log = _lean_compile(src, out_root, rel, env)
            if not ok:
                failing.append(dict(module=rel, errors=[l for l in log.splitlines() if "error" in l][:8]))
        res["elab"] = failing
    return res


# --------------------------------------------------------------------------------------------
# 3. probes
# --------------------------------------------------------------------------------------------
def build_rlib(cfg):
    cmd = ["cargo", "build", "--offline", "--all-features", "--manifest-path", os.path.join(cfg["repo"], "Cargo.toml"),
           "--target-dir", cfg["probe_target"]]
    rc, so, se = _run(cmd, cwd=cfg["tw"], timeout=1800)
    rlib = os.path.join(cfg["probe_target"], "debug", "libgc_arena.rlib")
    deps = os.path.join(cfg["probe_target"], "debug", "deps")
    return rc == 0 and os.path.exists(rlib), rlib, deps, (so + se)[-3000:]


def _probe_one(p, pdir, rlib, deps):
    src = os.path.join(pdir, p["name"] + ".rs")
    with open(src, "w") as f:
        f.write(p["src"])
    cmd = ["rustc", "--edition", "2024", "--extern", f"gc_arena={rlib}", "-L", f"dependency={deps}",
           "--error-format=short", "-A", "warnings"]
    for e in p.get("externs", []):
        cands = sorted(glob.glob(os.path.join(deps, f"lib{e}-*.rlib")))
        if cands:
            cmd += ["--extern", f"{e}={cands[-1]}"]
    meta = os.path.join(pdir, p["name"] + ".rmeta")
    rc, so, se = _run(cmd + ["--emit=metadata", src, "-o", meta], timeout=300)
    r = dict(name=p["name"], accepted=rc == 0, errors=[l.strip() for l in se.splitlines() if re.search(r"error(\[E\d+\])?:", l)][:3],
             ran=False, run_rc=None, run_out="")
    if rc == 0 and p.get("run"):
        exe = os.path.join(pdir, p["name"] + ".bin")
        rc2, so2, se2 = _run(cmd + [src, "-o", exe], timeout=300)
        if rc2 == 0:
            rc3, so3, se3 = _run([exe], timeout=60)
            r.update(ran=True, run_rc=rc3, run_out=(so3.strip() or se3.strip())[-400:])
        else:
            r["errors"] = [l.strip() for l in se2.splitlines() if "error" in l][:3]
            r["link_failed"] = True
    return r


def run_probes(cfg, probes, rlib, deps):
    pdir = os.path.join(cfg["tw"], "probes")
    os.makedirs(pdir, exist_ok=True)
    out = {}
    with concurrent.futures.ThreadPoolExecutor(NCPU) as ex:
        for r in ex.map(lambda p: _probe_one(p, pdir, rlib, deps), probes):
            out[r["name"]] = r
    return out


def _unsafe_run(r):
    return r["ran"] and ("RESULT unsafe" in r["run_out"] or "RESULT conjured=true" in r["run_out"] or (r["run_rc"] not in (0, None)))


def judge_probes(prop, probes, results, violating):
    """Compare model prediction and compiler. Returns (problems_by_entry, correspondence_problems, rows)."""
    by_entry = {}
    corr = []
    rows = []
    for p in probes:
        r = results[p["name"]]
        bad_entries = [e for e in [p["entry"]] + list(p.get("also", [])) if e in violating]
        entry_bad = bool(bad_entries)
        if p["role"] == "attack":
            predict = "accept" if entry_bad else "reject"
        elif p["role"] == "misuse":
            predict = "reject"
        else:
            predict = "accept"
        observed = "accept" if r["accepted"] else "reject"
        unsafe = _unsafe_run(r)
        rows.append(dict(probe=p["name"], entry=p["entry"], role=p["role"], predicted=predict, rustc=observed,
                         ran=r["ran"], outcome=(r["run_out"].splitlines() or [""])[0][:160], error=(r["errors"] or [""])[0][:200]))
        if p["role"] == "attack" and entry_bad:
            # a violating entry need not make *every* attack shape succeed; the accepted ones demonstrate it
            rows[-1]["predicted"] = "accept (some attack)"
            if r["accepted"]:
                for e in bad_entries:
                    # programs that were also run and misbehaved come first (they are the replay)
                    lst = by_entry.setdefault(e, [])
                    if _unsafe_run(r):
                        lst.insert(0, (p, r))
                    else:
                        lst.append((p, r))
            continue
        if predict != observed:
            if p["role"] in ("attack", "misuse") and r["accepted"] and unsafe:
                by_entry.setdefault(p["entry"], []).append((p, r))  # a hole the table did not predict
                corr.append(dict(probe=p, result=r, text=f"probe {p['name']}: the model accepts table entry `{p['entry']}` but rustc accepts the attack and the run is unsafe", failing=True))
            else:
                corr.append(dict(probe=p, result=r, failing=False,
                                 text=f"probe {p['name']} ({p['role']} for `{p['entry']}`): model predicts {predict}, rustc says {observed}"
                                      + (f" [{r['errors'][0][:160]}]" if r["errors"] else "")))
        elif p["role"] == "use" and r["ran"] and unsafe and entry_bad:
            for e in bad_entries:
                by_entry.setdefault(e, []).insert(0, (p, r))
        elif p["role"] == "use" and r["ran"] and unsafe:
            corr.append(dict(probe=p, result=r, failing=True,
                             text=f"probe {p['name']}: the legitimate use of `{p['entry']}` loses the child ({r['run_out'][:120]})"))
        elif p["role"] == "use" and p.get("run") and r["accepted"] and not r["ran"]:
            corr.append(dict(probe=p, result=r, failing=False, text=f"probe {p['name']}: accepted but could not be linked / run"))
    return by_entry, corr, rows


LIFETIME_ERR = re.compile(r"lifetime may not live long enough|borrowed data escapes|does not live long enough|E0521|E0597|E0716|E0310|"
                          r"lifetime mismatch|E0308.*lifetime|not general enough|cannot be named|escapes the closure body|E0499|E0502|E0505|E0506")


def judge_c12(probes, results, violating):
    """C12 brand-flow probes: every attack / misuse program must be rejected *with a lifetime error*; an
    accepted one is a failing input whatever it prints when run (the program is the replay); the
    legitimate twin must compile and print RESULT safe."""
    by_entry, corr, rows = {}, [], []
    for p in probes:
        r = results[p["name"]]
        entry_bad = p["entry"] in violating
        observed = "accept" if r["accepted"] else "reject"
        predict = "accept" if p["role"] == "use" else ("accept (some shape)" if (p["role"] == "attack" and entry_bad) else "reject")
        rows.append(dict(probe=p["name"], entry=p["entry"], role=p["role"], predicted=predict, rustc=observed, ran=r["ran"],
                         outcome=(r["run_out"].splitlines() or [""])[0][:200], error=(r["errors"] or [""])[0][:200]))
        if p["role"] in ("attack", "misuse"):
            if r["accepted"]:
                by_entry.setdefault(p["entry"], []).append((p, r))
                if not entry_bad:
                    corr.append(dict(probe=p, result=r, failing=True,
                                     text=f"probe {p['name']}: a brand escape through `{p['entry']}` is ACCEPTED by rustc although the BrandFlow table accepts every entry"
                                          + (f"; run: {r['run_out'][:160]}" if r["ran"] else "")))
            elif p.get("unsafe_gate") and any("E0133" in e for e in r["errors"]):
                pass  # rejected because the function is unsafe: the exemption the table relies on
            elif not any(LIFETIME_ERR.search(e) for e in r["errors"]):
                corr.append(dict(probe=p, result=r, failing=False,
                                 text=f"probe {p['name']} is rejected, but not with a lifetime error (rotten probe?): {(r['errors'] or ['?'])[0][:200]}"))
        else:
            if not r["accepted"]:
                corr.append(dict(probe=p, result=r, failing=False,
                                 text=f"probe {p['name']}: the legitimate twin for `{p['entry']}` does not compile: {(r['errors'] or ['?'])[0][:200]}"))
            elif not r["ran"] or r["run_rc"] != 0 or "RESULT safe" not in r["run_out"]:
                corr.append(dict(probe=p, result=r, failing=False,
                                 text=f"probe {p['name']}: the legitimate twin for `{p['entry']}` does not run cleanly: rc={r['run_rc']} {r['run_out'][:160]}"))
    # prefer the complete scenario, then programs that demonstrate the consequence when run
    for v in by_entry.values():
        v.sort(key=lambda pr: (not pr[0].get("demo"), not _unsafe_run(pr[1])))
    return by_entry, corr, rows


# --------------------------------------------------------------------------------------------
# problems
# --------------------------------------------------------------------------------------------
def _key_for(prop, viol, demos):
    for p, _ in demos:
        if p.get("key"):
            return p["key"]
    return f"table-{_slug(viol, 70)}"


THEOREM = {"C09": "GcArena.C09s.*_matches_source", "C10": "GcArena.C09s.*_matches_source", "C12": "GcArena.C12s.table_ok", "C13": "GcArena.C13.table_ok / cells_static", "C16": "GcArena.C16.table_complete", "C19": "GcArena.C19s.no_conjure",
           "C03": "GcArena.C03s.callgraph / collection_needs_exclusive_arena / names_present",
           "C20": "GcArena.C20s.statics / expanded_statics_are_tracing_callsites / fresh_state"}


def _theorem_for(prop, v):
    if v.startswith("template:") or (v.startswith("unclassified: macro ") and prop in ("C12", "C16")):
        return "GcArena.C12s.static_collect_templates_ok" if prop == "C12" else "GcArena.C16.dyn_collect_templates_ok"
    if prop in ("C09", "C10"):
        if v.startswith("pacing: Pacing::DEFAULT"):
            return "GcArena.C09s.pacing_default_matches_source"
        if v.startswith("pacing: Pacing::STOP"):
            return "GcArena.C09s.pacing_stw_matches_source"
        if v.startswith("default-impl:"):
            return "GcArena.C09s.default_impl_is_default"
        if v.startswith("metrics-new:"):
            return "GcArena.C09s.required_metrics_cells" if " cells found in " in v else "GcArena.C09s.metrics_new_matches_source"
        return "GcArena.C09s.pacing_consts_classified"
    if prop == "C12":
        return "GcArena.C12s.no_collect_impl_hides_brand" if v.startswith("hidden:") else "GcArena.C12s.table_ok"
    if v.startswith("required:"):
        return {"C13": "GcArena.C13.required_write_rows", "C16": "GcArena.C16.required_collect_rows", "C19": "GcArena.C19s.required_sig_rows",
                "C03": "GcArena.C03s.required_graph_rows", "C20": "GcArena.C20s.required_scan_coverage", "C12": "GcArena.C12s.required_collect_rows"}.get(prop, "required_*")
    if prop == "C13":
        return "GcArena.C13.cells_static" if v.startswith("cell:") else "GcArena.C13.table_ok"
    if prop == "C16":
        return "GcArena.C16.untraced_static_ok" if v.startswith("hidden:") else "GcArena.C16.table_complete"
    if prop == "C19":
        return "GcArena.C19s.no_conjure"
    if prop == "C03":
        if v.startswith("reaches-do-collection"):
            return "GcArena.C03s.collection_needs_exclusive_arena"
        if v.startswith("driver-part"):
            return "GcArena.C03s.driver_parts_private"
        if v.startswith(("marked-arena", "constructs-marked-arena")):
            return "GcArena.C03s.marked_arena_exclusive"
        if v.startswith(("names:", "unclassified:", "graph:")):
            return "GcArena.C03s.names_present"
        return "GcArena.C03s.callgraph"
    if v.startswith("static:"):
        return "GcArena.C20s.statics"
    if v.startswith("expanded-static:"):
        return "GcArena.C20s.expanded_statics_are_tracing_callsites"
    return "GcArena.C20s.fresh_state"


def _is_tie_only(v):
    """The extraction / certificate broke, no concrete offending entry is exhibited."""
    return v.startswith(("pacing:", "default-impl:", "metrics-new:","unclassified:", "names:", "certificate:", "graph:", "fresh-roots:", "marked-arena:", "macro-call:", "brand-type:"))


PACING_PROBE = '''use gc_arena::metrics::Pacing;
fn show(name: &str, p: &Pacing) {
    println!("{name} sleep_factor {:016x}", p.sleep_factor.to_bits());
    println!("{name} min_sleep {}", p.min_sleep);
    println!("{name} mark_factor {:016x}", p.mark_factor.to_bits());
    println!("{name} trace_factor {:016x}", p.trace_factor.to_bits());
    println!("{name} keep_factor {:016x}", p.keep_factor.to_bits());
    println!("{name} drop_factor {:016x}", p.drop_factor.to_bits());
    println!("{name} free_factor {:016x}", p.free_factor.to_bits());
}
fn main() {
    show("DEFAULT", &Pacing::DEFAULT);
    show("STOP_THE_WORLD", &Pacing::STOP_THE_WORLD);
    show("default()", &Pacing::default());
    let arena = gc_arena::Arena::<gc_arena::Rootable![()]>::new(|_| ());
    println!("new total_gc_count {}", arena.metrics().total_gc_count());
    println!("new allocation_debt {:016x}", arena.metrics().allocation_debt().to_bits());
}
'''


def _pacing_runtime_check(cfg, pc, rlib, deps):
    """Build and run PACING_PROBE against the crate; compare with the extracted exact values."""
    import struct
    from fractions import Fraction
    pdir = os.path.join(cfg["tw"], "probes")
    os.makedirs(pdir, exist_ok=True)
    src = os.path.join(pdir, "pacing-consts.rs")
    open(src, "w").write(PACING_PROBE)
    exe = os.path.join(pdir, "pacing-consts.bin")
    rc, so, se = _run(["rustc", "--edition", "2024", "--extern", f"gc_arena={rlib}", "-L", f"dependency={deps}", "-A", "warnings", src, "-o", exe], timeout=300)
    out = dict(compared=0, mismatches=[], program=PACING_PROBE)
    if rc != 0:
        out["mismatches"].append("the probe program does not compile: " + (se.strip().splitlines() or [""])[0][:200])
        return out
    rc, so, se = _run([exe], timeout=60)
    if rc != 0:
        out["mismatches"].append(f"the probe program failed (rc={rc})")
        return out
    got = {}
    for line in so.splitlines():
        parts = line.split()
        if len(parts) == 3:
            got[(parts[0], parts[1])] = parts[2]
    expect = {}
    for c in pc["consts"]:
        for f in c["fields"]:
            if f.get("num") is None:
                continue
            fr = Fraction(int(f["num"]), int(f["den"])) * (-1 if f.get("neg") else 1)
            if f["field"] == "min_sleep":
                expect[(c["name"], f["field"])] = str(fr.numerator) if fr.denominator == 1 else "?"
            else:
                expect[(c["name"], f["field"])] = "%016x" % struct.unpack("<Q", struct.pack("<d", float(fr)))[0]
    dflt = pc.get("default_impl") or ""
    for (cn, fn), v in list(expect.items()):
        if cn == dflt:
            expect[("default()", fn)] = v
    expect[("new", "total_gc_count")] = "0"
    expect[("new", "allocation_debt")] = "%016x" % 0
    for k, v in sorted(expect.items()):
        out["compared"] += 1
        if got.get(k) != v:
            out["mismatches"].append(f"{k[0]}.{k[1]}: the running crate has {got.get(k)}, the exact value read from the source gives {v}")
    out["observed"] = {f"{a}.{b}": v for (a, b), v in sorted(got.items())}
    return out


def _explain_collect(entry):
    """A concrete failing instantiation for an incomplete Collect entry (from the JSON facts)."""
    if not entry:
        return []
    stored = {"hashMap": [0, 1, 2], "hbHashMap": [0, 1, 2], "indexMap": [0, 1, 2], "result": [0, 1], "btreeMap": [0, 1],
              "sliceWithHeader": [0, 1], "hashSet": [0, 1], "hbHashSet": [0, 1], "indexSet": [0, 1], "slotMap": [1], "enumMap": [1],
              "phantomData": [], "leaf": [], "internal": []}
    sk = entry["shape"]
    if sk.startswith("tuple "):
        st = list(range(int(sk.split()[1])))
    else:
        st = stored.get(sk, [0])
    lines = []
    for k in st:
        static = entry["self_static"] or k in entry["static_params"]
        if static:
            continue
        if k not in entry["traced"]:
            lines.append(f"failing input: instantiate type argument #{k} with Gc<'gc, T> (all others pointer-free) and store one element there: "
                         f"the impl's trace never passes position #{k} to the tracer, so the pointer is not reported")
        if k not in entry["disjuncts"] and not entry["const_needs"]:
            lines.append(f"failing input: instantiate type argument #{k} with Gc<'gc, T> (all others pointer-free): NEEDS_TRACE evaluates to false, "
                         f"Trace::trace skips the container, the pointer at position #{k} is not reported")
        for g in entry["guards"]:
            if k not in g:
                lines.append(f"failing input: pointer only at position #{k}: the guard `if …NEEDS_TRACE` over positions {g} is false, nothing is traced")
    if entry["ptr_fields"]:
        miss = [f for f in entry["ptr_fields"] if f not in entry["traced_fields"]]
        for f in miss:
            lines.append(f"failing input: field `{f}` holds arena pointers but is never mentioned in a trace call")
    return lines


def _path_to(cg, target, cut_builders=True):
    """A call path from a callback-side root to node `target` (explanation only)."""
    fns = cg["fns"]
    ctx_new = [i for i, f in enumerate(fns) if f["name"] == "Context::new"]
    succ = {}
    for a, b in cg["edges"]:
        succ.setdefault(a, []).append(b)

    def excluded(i, f):
        return (f["self_ty"] == "Arena" and f["recv"] in ("refMut", "value")) or f["self_ty"] == "MarkedArena" or \
            any(c in succ.get(i, []) for c in ctx_new)
    cut = {i for i, f in enumerate(fns) if f["is_drop_impl"] and f["self_ty"].endswith("Builder")} if cut_builders else set()
    roots = [i for i, f in enumerate(fns) if f["client_callable"] and not excluded(i, f)]
    prev = {r: None for r in roots}
    queue = list(roots)
    while queue:
        x = queue.pop(0)
        if x == target:
            break
        if x in cut:
            continue
        for y in succ.get(x, []):
            if y not in prev:
                prev[y] = x
                queue.append(y)
    if target not in prev:
        return []
    path = []
    x = target
    while x is not None:
        path.append(fns[x]["name"])
        x = prev[x]
    return list(reversed(path))


def run(prop, tier, seed):
    t0 = time.time()
    cfg = _cfg()
    os.makedirs(cfg["tw"], exist_ok=True)
    res = dict(problems=[], evaluations=0, distinct_nontrivial=0, programs=0, disagreements_checked=0, samples=[], summary={},
               rule="a table entry is non-trivial when it constrains the theorem's hypothesis (an impl / constructor / signature / call-graph node); "
                    "a probe is non-trivial when rustc's verdict on it is compared with the model's prediction")
    if prop not in PROPS:
        return res
    timings = {}

    def problem(name, text, failing, header, lines, key=None):
        d = dict(name=_slug(name, 80), text=text, failing_input=bool(failing), header=header, lines=lines[:MAX_REPLAY_LINES])
        if key:
            d["key"] = key
        res["problems"].append(d)

    # environment overrides: recorded in the evidence; the ones that redirect the regenerated tables
    # away from lean/GcArena/Generated (which `lake build GcArena.Props.*` reads) are refused under ./check
    overrides = {k: os.environ[k] for k in ("VERIF_TABLES_REPO", "VERIF_TABLES_LEAN_OUT", "VERIF_TABLES_LEAN_DIR", "VERIF_TABLES_ELAB") if os.environ.get(k)}
    res["summary"]["overrides"] = overrides
    if "vcheck" in sys.modules and (overrides.get("VERIF_TABLES_LEAN_OUT") or overrides.get("VERIF_TABLES_LEAN_DIR")):
        problem("tables-override-under-check", "VERIF_TABLES_LEAN_OUT / VERIF_TABLES_LEAN_DIR are set: the regenerated tables would go elsewhere while the property "
                "theorems are built against lean/GcArena/Generated — refused under ./check (only direct engine runs may use these overrides)", False,
                [f"property {prop}: environment override refused under ./check: " + ", ".join(f"{k}={v}" for k, v in overrides.items()),
                 "unset VERIF_TABLES_LEAN_OUT / VERIF_TABLES_LEAN_DIR and run ./check again"], [])
        res["summary"] = {"eng_tables": res["summary"]}
        return res

    # 1. translator ---------------------------------------------------------------------------
    ok, exe, log = build_extractor()
    timings["build_extractor"] = round(time.time() - t0, 2)
    if not ok:
        problem("extractor-build", "the translator /verif/extract does not build", False, ["cargo build --offline in /verif/extract failed"], log.splitlines()[-40:])
        return res
    t1 = time.time()
    ok, expanded, log = expand(cfg, "all")
    timings["expand"] = round(time.time() - t1, 2)
    if not ok:
        problem("crate-does-not-expand", f"the crate at {cfg['repo']} does not compile / macro-expand (cargo +nightly rustc --all-features -Zunpretty=expanded)",
                False, ["the translator needs the macro-expanded crate; the build failed:"], log.splitlines()[-40:])
        return res
    t1 = time.time()
    jpath = os.path.join(cfg["tw"], "tables.json")
    ok, log = extract(cfg, exe, expanded, cfg["gen"], jpath)
    timings["extract"] = round(time.time() - t1, 2)
    if not ok:
        problem("extract-failed", "the translator failed on the current source tree", False, ["gcverif-extract exited with an error:"], log.splitlines()[-40:])
        return res
    tables = json.load(open(jpath))
    for pp in tables.get("parse_problems", []):
        problem("source-does-not-parse", f"a source file does not parse: {pp}", False, [pp], [])

    # 2. the model's verdict -------------------------------------------------------------------
    t1 = time.time()
    ev = lean_eval(cfg, prop, cfg["gen"], elab=bool(os.environ.get("VERIF_TABLES_ELAB")))
    timings["lean_eval"] = round(time.time() - t1, 2)
    if not ev["ok"]:
        problem("lean-eval-failed", f"the Lean model could not be evaluated on the regenerated table for {prop}", False,
                ["lean (scratch output dir) failed:"], ev["log"].splitlines()[-40:])
        return res
    violating = list(dict.fromkeys(ev["violations"]))
    res["summary"]["table_info"] = ev["info"]
    res["summary"]["table_violations"] = violating
    if ev["elab"] is not None:
        res["summary"]["elab"] = ev["elab"]

    # table sizes
    entries = 0
    if prop == "C13":
        dw = tables["derefwrite"]
        entries = len(dw["ctors"]) + len(dw["projs"]) + len(dw["unlocks"]) + len(dw["cells"]) + len(dw["lock_fns"]) + 2
    elif prop == "C16":
        entries = len(tables["collect"]["entries"]) + 4
    elif prop == "C19":
        entries = len(tables["sig"]["sigs"])
        res["summary"]["signatures_scanned"] = tables["sig"]["scanned"]
    elif prop == "C12":
        entries = len(tables["brandflow"]["entries"])
        res["summary"]["signatures_scanned"] = tables["brandflow"]["scanned"]
        res["summary"]["macro_calls"] = tables["brandflow"]["macro_calls"]
        res["summary"]["lifetime_params"] = {a["name"]: a["params"] for a in tables["brandflow"]["adts"]}
    elif prop in ("C09", "C10"):
        pc = tables["pacing"]
        entries = sum(len(c["fields"]) for c in pc["consts"]) + 1 + len(pc["metrics_new"])  # metrics_new: every numeric / Pacing state cell of Metrics::new()
        res["summary"]["pacing_consts"] = pc
        # optional run-time cross-check: the f64 the compiler produced for each literal is the f64
        # nearest to the exact rational the Lean side was given
        t1 = time.time()
        okb, rlib, deps, blog = build_rlib(cfg)
        if okb:
            chk = _pacing_runtime_check(cfg, pc, rlib, deps)
            res["summary"]["pacing_runtime_check"] = chk
            res["evaluations"] += chk.get("compared", 0)
            res["disagreements_checked"] += chk.get("compared", 0)
            for m in chk.get("mismatches", []):
                problem("pacing-runtime-" + _slug(m), f"run-time cross-check of the pacing constants: {m}", False,
                        [f"property {prop}: the f64 bit pattern of a `Pacing` constant field differs from the f64 nearest to the exact rational "
                         "the translator read from the literal (or the program did not build / run)", m], chk.get("program", "").splitlines())
        timings["pacing_runtime_check"] = round(time.time() - t1, 2)
    else:
        entries = len(tables["callgraph"]["fns"])
        res["summary"]["edges"] = len(tables["callgraph"]["edges"])
    res["evaluations"] += entries
    res["distinct_nontrivial"] += entries
    res["programs"] += entries

    # 3/4. probes ------------------------------------------------------------------------------
    demos = {}
    rows = []
    if prop in ("C12", "C13", "C16", "C19"):
        t1 = time.time()
        ok, rlib, deps, log = build_rlib(cfg)
        timings["build_rlib"] = round(time.time() - t1, 2)
        if not ok:
            problem("crate-does-not-build", f"the crate at {cfg['repo']} does not build as an rlib (--all-features)", False,
                    ["cargo build --offline --all-features failed:"], log.splitlines()[-40:])
        else:
            gen = _load_gen()
            missing = []
            if prop == "C13":
                probes = gen.c13_probes(tables["derefwrite"])
            elif prop == "C16":
                probes = gen.hidden_brand_probes(tables["collect"])
            elif prop == "C12":
                probes, missing = _load_gen("gen_brandflow.py").c12_probes(tables["brandflow"])
            else:
                probes, missing = gen.c19_probes(tables["sig"])
            t1 = time.time()
            results = run_probes(cfg, probes, rlib, deps)
            timings["probes"] = round(time.time() - t1, 2)
            if prop == "C12":
                demos, corr, rows = judge_c12(probes, results, set(violating))
            else:
                demos, corr, rows = judge_probes(prop, probes, results, set(violating))
            res["evaluations"] += len(probes)
            res["programs"] += len(probes)
            res["disagreements_checked"] += len(probes)
            res["distinct_nontrivial"] += len({p["src"] for p in probes})
            # many legitimate-use store probes failing together point at the barrier / collector, not at
            # the individual table rows: report them as ONE problem (first program = replay)
            lost = [c for c in corr if c["failing"] and c["probe"]["role"] == "use"]
            if prop == "C13" and len(lost) > 3:
                corr = [c for c in corr if c not in lost]
                p0, r0 = lost[0]["probe"], lost[0]["result"]
                scheds = sorted({m for c in lost for m in re.findall(r'"([a-f]\d?)"', (c["result"]["run_out"].split(":", 2) + ["", ""])[1])})
                problem("c13-store-probes-lose-the-child", f"{len(lost)} accepted store probes of the C13 corpus (every Write constructor / DerefWrite / IndexWrite / Unlock path and the "
                        f"Gc<Lock>/Gc<RefLock>/Gc<OnceLock> shorthands) violate C01 when run under schedule(s) {scheds}: {r0['run_out'][:200]}", True,
                        [f"property C13: {len(lost)} legitimate store programs, accepted by rustc, lose a child stored in a reachable object under the schedule matrix "
                         f"(schedules failing: {scheds}; see the comment block in the program for their meaning)",
                         "probes: " + ", ".join(c["probe"]["name"] for c in lost),
                         f"replay (first of them, `{p0['name']}`): rustc --edition 2024 --extern gc_arena=<…/libgc_arena.rlib> -L dependency=<…/deps> <this file> && ./<binary>",
                         f"its output: {r0['run_out'][:300]}"],
                        p0["src"].splitlines(), key=None)
            for c in corr:
                p, r = c["probe"], c["result"]
                if c["failing"] and p["entry"] in demos and p["entry"] in violating:
                    continue
                problem("probe-" + p["name"], c["text"], c["failing"],
                        [f"property {prop}: compile probe `{p['name']}` generated from table entry `{p['entry']}` ({p['role']})",
                         f"rustc: {'accepted' if r['accepted'] else 'rejected'}" + (f"; run: {r['run_out'][:200]}" if r["ran"] else ""),
                         "replay: rustc --edition 2024 --extern gc_arena=<work/probe-target/debug/libgc_arena.rlib> -L dependency=<…/deps> <this file>"],
                        p["src"].splitlines(), key=None)
            if missing:
                res["summary"]["signatures_without_probe_template"] = missing
            res["summary"]["probe_outcomes"] = dict(
                total=len(probes), accepted=sum(1 for r in results.values() if r["accepted"]),
                rejected=sum(1 for r in results.values() if not r["accepted"]), run=sum(1 for r in results.values() if r["ran"]),
                by_role={role: sum(1 for p in probes if p["role"] == role) for role in ("attack", "misuse", "use")})
            res["samples"] = rows[:3] + [r for r in rows if r["rustc"] == "accept" and r["role"] == "attack"][:3]

    # C12 also reports the untraced-static rule of the Collect table (Props/C12s re-exports it): a
    # branded value hiding in an untraced parameter of a root value outlives its callback
    if prop == "C12":
        t1 = time.time()
        ev16 = lean_eval(cfg, "C16", cfg["gen"], out_tag="c12-collect")
        timings["lean_eval_collect"] = round(time.time() - t1, 2)
        if not ev16["ok"]:
            problem("lean-eval-collect-failed", "the Collect table could not be evaluated for the untraced-static rule (C12s.no_collect_impl_hides_brand)",
                    False, ["lean (scratch output dir) failed:"], ev16["log"].splitlines()[-40:])
        else:
            hidden = [v for v in dict.fromkeys(ev16["violations"]) if v.startswith(("hidden:", "unclassified:"))]
            res["summary"]["collect_table_info"] = ev16["info"]
            res["summary"]["hidden_brand_violations"] = hidden
            res["evaluations"] += len(tables["collect"]["entries"])
            res["programs"] += len(tables["collect"]["entries"])
            ok_r, rlib, deps, _log = build_rlib(cfg)
            if ok_r:
                hp = _load_gen().hidden_brand_probes(tables["collect"])
                hres = run_probes(cfg, hp, rlib, deps)
                hdemos, hcorr, hrows = judge_probes("C16", hp, hres, set(ev16["violations"]))
                res["evaluations"] += len(hp)
                res["programs"] += len(hp)
                res["disagreements_checked"] += len(hp)
                rows = rows + hrows
                res["summary"]["hidden_brand_probe_outcomes"] = dict(total=len(hp), accepted=sum(1 for r in hres.values() if r["accepted"]),
                                                                      rejected=sum(1 for r in hres.values() if not r["accepted"]))
                for c in hcorr:
                    p_, r_ = c["probe"], c["result"]
                    if c["failing"] and p_["entry"] in hdemos and p_["entry"] in hidden:
                        continue
                    problem("probe-" + p_["name"], c["text"], c["failing"],
                            [f"property C12: compile probe `{p_['name']}` generated from Collect table entry `{p_['entry']}` ({p_['role']})",
                             f"rustc: {'accepted' if r_['accepted'] else 'rejected'}" + (f"; run: {r_['run_out'][:200]}" if r_["ran"] else "")],
                            p_["src"].splitlines(), key=None)
                demos.update(hdemos)
            violating = violating + [v for v in hidden if v not in violating]

    # C12 / C16: the client-instantiated arms of the exported impl-generating macros (static_collect!,
    # dyn_collect!): template rows regenerated from the raw source, rule Model/MacroImpls.Template.ok
    if prop in ("C12", "C16"):
        t1 = time.time()
        evm = lean_eval(cfg, "MT", cfg["gen"], out_tag="templates-" + prop)
        timings["lean_eval_templates"] = round(time.time() - t1, 2)
        if not evm["ok"]:
            problem("lean-eval-templates-failed", "the macro template table (Generated/MacroImpls) could not be evaluated", False,
                    ["lean (scratch output dir) failed:"], evm["log"].splitlines()[-40:])
        else:
            tv = list(dict.fromkeys(evm["violations"]))
            if prop == "C12":   # C12 owns static_collect!; C16 reports every row
                tv = [v for v in tv if not v.startswith("template: __dyn_collect")]
            res["summary"]["macro_templates"] = tables["macroimpls"]["rows"]
            res["summary"]["macro_template_violations"] = tv
            res["evaluations"] += len(tables["macroimpls"]["rows"])
            res["programs"] += len(tables["macroimpls"]["rows"])
            ok_r, rlib, deps, _log = build_rlib(cfg)
            if ok_r:
                tp = [p_ for p_ in _load_gen().template_probes(tables["macroimpls"]) if p_["prop"] == prop]
                tres = run_probes(cfg, tp, rlib, deps)
                tdemos, tcorr, trows = judge_probes(prop, tp, tres, set(evm["violations"]))
                res["evaluations"] += len(tp)
                res["programs"] += len(tp)
                res["disagreements_checked"] += len(tp)
                rows = rows + trows
                res["summary"]["macro_template_probe_outcomes"] = {p_["name"]: (("accepted; " + tres[p_["name"]]["run_out"][:120]) if tres[p_["name"]]["accepted"]
                                                                                 else "rejected: " + (tres[p_["name"]]["errors"] or [""])[0][-160:]) for p_ in tp}
                for c in tcorr:
                    p_, r_ = c["probe"], c["result"]
                    if c["failing"] and p_["entry"] in tdemos and p_["entry"] in tv:
                        continue
                    problem("probe-" + p_["name"], c["text"], c["failing"],
                            [f"property {prop}: compile probe `{p_['name']}` generated from macro template row `{p_['entry']}` ({p_['role']})",
                             f"rustc: {'accepted' if r_['accepted'] else 'rejected'}" + (f"; run: {r_['run_out'][:300]}" if r_["ran"] else ""),
                             "replay: rustc --edition 2024 --extern gc_arena=<work/probe-target/debug/libgc_arena.rlib> -L dependency=<…/deps> <this file> && ./<binary>"],
                            p_["src"].splitlines(), key=None)
                demos.update(tdemos)
            violating = violating + [v for v in tv if v not in violating]

    # table violations -> problems ----------------------------------------------------------------
    cg = tables.get("callgraph", {})
    if prop == "C16":
        # an entry violating the untraced-static rule is incomplete too: report it once, under the rule
        hid = {v[len("hidden: "):] for v in violating if v.startswith("hidden: ")}
        violating = [v for v in violating if not (v.startswith("impl: ") and v[len("impl: "):] in hid)]
    for v in violating:
        d = demos.get(v, [])
        key = _key_for(prop, v, d)
        thm = _theorem_for(prop, v)
        header = [f"property {prop}: table theorem {thm} does not hold of the table extracted from {cfg['repo']}",
                  f"violating entry: {v}"]
        lines = []
        if d:
            p, r = d[0]
            header.append(f"demonstrated by compile probe `{p['name']}`: rustc ACCEPTS this safe client program"
                          + (f"; running it prints: {r['run_out'][:200]}" if r["ran"] else ""))
            header.append("replay: rustc --edition 2024 --extern gc_arena=<…/libgc_arena.rlib> -L dependency=<…/deps> <this file> && ./<binary>")
            lines = p["src"].splitlines()
            text = f"{thm} fails for `{v}`; safe program `{p['name']}` is accepted" + (f" and unsafe when run ({r['run_out'][:100]})" if r["ran"] else "")
        else:
            text = f"{thm} fails for `{v}` (no demonstrating program: every probe generated for this row, if any, still behaves as on an acceptable row)"
            if _is_tie_only(v):
                text = f"{thm} cannot be established: {v} (the translator fails closed; no failing input is exhibited)"
                if v.startswith(("pacing:", "default-impl:", "metrics-new:")):
                    text = f"{thm} fails: {v} — the Lean model's constant no longer mirrors src/metrics.rs (tie broke; no failing input)"
            if v.startswith("template:"):
                row = next((r_ for r_ in tables["macroimpls"]["rows"] if v == f"template: {r_['macro']} arm {r_['arm']}"), None)
                lines = [f"template row: {json.dumps(row)}",
                         "rule: NEEDS_TRACE = false / an empty trace is licensed only by `$type: 'static` on the user-supplied type; a forwarding trace must leave NEEDS_TRACE true"]
            elif prop == "C16" or v.startswith("hidden:"):
                ent = next((e for e in tables["collect"]["entries"] if v in ("impl: " + e["text"], "hidden: " + e["text"])), None)
                lines = [f"table entry: {json.dumps(ent)}"] + _explain_collect(ent)
                if ent and v.startswith("hidden:"):
                    lines += [f"parameter `{p_['name']}` (position {p_['pos']}) is {p_['role']}: neither traced nor bounded by 'static — a `&'gc T` or an untraced `Gc<'gc, T>` may sit there"
                              for p_ in ent.get("params", []) if p_["role"] in ("unbounded", "collectOnly")]
                    lines += [f"free lifetime `'{l}` in the self type" for l in ent.get("free_lifetimes", [])]
            elif prop in ("C03", "C20"):
                m = re.match(r"(reach-destructive|reaches-do-collection|constructs-marked-arena): (\d+) (.*)", v)
                if m and m.group(1) == "reach-destructive":
                    path = _path_to(cg, int(m.group(2)))
                    lines = ["call path from a callback-side entry point:"] + ["  " + " -> ".join(path[i:i + 3]) + (" ->" if i + 3 < len(path) else "") for i in range(0, len(path), 3)]
                elif m:
                    lines = [f"function {m.group(3)} (node {m.group(2)}): {json.dumps(cg['fns'][int(m.group(2))])}"]
                else:
                    lines = [v]
            elif prop == "C13":
                dw = tables["derefwrite"]
                lines = [f"table: {json.dumps({k: dw[k] for k in ('field_macro', 'write_non_exhaustive', 'unclassified')})}"]
                for coll in ("ctors", "projs", "unlocks", "cells", "lock_fns"):
                    for e in dw[coll]:
                        if any(str(val) and str(val) in v for val in (e.get("name"), e.get("text"), e.get("ty")) if val):
                            lines.append(f"entry: {json.dumps(e)}")
            elif prop == "C19":
                ent = next((s for s in tables["sig"]["sigs"] if ("sig: " + s["name"]) == v), None)
                lines = [f"signature: {ent['decl'] if ent else v}", f"entry: {json.dumps(ent)}"]
            elif prop == "C12":
                ent = next((e for e in tables["brandflow"]["entries"] if ("flow: " + e["name"]) == v), None)
                lines = [f"offending signature: {ent['decl'] if ent else v}", f"table entry: {json.dumps(ent)}"]
                if ent:
                    lines.append(f"result brands {ent['out_brands']} / result reference lifetimes {ent['out_refs']} are not all taken from the inputs "
                                 f"(input brands {ent['in_brands']}, input lifetimes {ent['in_lts']}); caller-chosen: {ent['free']}; "
                                 f"reachable from safe code: {'via macro ' + ', '.join(m + '!' for m in ent['via_macros']) if ent['is_unsafe'] else 'safe fn'}")
                lines.append("no client-program template exists for this entry (or rustc rejected every escape shape tried): no failing program is exhibited")
        if prop == "C12":
            # the offending signature is named first; the body of the replay is the client program
            ent = next((e for e in tables["brandflow"]["entries"] if ("flow: " + e["name"]) == v), None)
            if ent and d:
                header.insert(2, f"offending signature: {ent['decl']}")
                header.insert(3, f"caller-chosen lifetimes of the result: {ent['free']} (result brands {ent['out_brands']}, input brands {ent['in_brands']})")
            problem(f"{prop}-{key}", text, bool(d), header, lines, key=key)
            continue
        # failing_input only with a demonstrating program (a probe whose verdict flipped or whose run
        # misbehaves); a row that merely fails its table theorem is "broken obligation, no failing input"
        problem(f"{prop}-{key}", text, bool(d), header, lines, key=key)

    # thorough: per-feature tables for C16 ------------------------------------------------------
    if prop == "C16" and tier == "thorough":
        feats = ["none", "default"]
        try:
            toml = open(os.path.join(cfg["repo"], "Cargo.toml")).read()
            feats += re.findall(r"^([A-Za-z0-9_-]+)\s*=\s*\{[^}]*optional\s*=\s*true", toml, flags=re.M)
        except OSError:
            pass
        per = {}
        for ft in feats:
            t1 = time.time()
            ok, exp, log = expand(cfg, ft)
            if not ok:
                problem(f"expand-{ft}", f"feature set `{ft}`: the crate does not build / expand", False, [f"features: {ft}"], log.splitlines()[-30:])
                continue
            gdir = os.path.join(cfg["tw"], "gen-" + _slug(ft))
            ok, log = extract(cfg, exe, exp, gdir, os.path.join(gdir, "tables.json"))
            if not ok:
                problem(f"extract-{ft}", f"feature set `{ft}`: translator failed", False, [f"features: {ft}"], log.splitlines()[-30:])
                continue
            e2 = lean_eval(cfg, "C16", gdir, out_tag="feat-" + _slug(ft))
            per[ft] = dict(ok=e2["ok"], violations=e2["violations"], info=e2["info"], seconds=round(time.time() - t1, 1))
            res["evaluations"] += int(e2["info"].get("entries", 0) or 0)
            if not e2["ok"]:
                problem(f"lean-eval-{ft}", f"feature set `{ft}`: Lean evaluation failed", False, [f"features: {ft}"], e2["log"].splitlines()[-30:])
            for v in e2["violations"]:
                if v not in violating:
                    problem(f"C16-{ft}-{_slug(v)}", f"feature set `{ft}`: Collect table entry incomplete: {v}", False,
                            [f"property C16, features `{ft}`: entry violates completeness", v], [v], key=f"table-{_slug(v, 70)}")
        res["summary"]["per_feature"] = per

    res["summary"]["pinned_identifiers"] = PINNED.get(prop, [])
    res["summary"]["timings"] = dict(timings, total=round(time.time() - t0, 2))
    res["summary"]["source_state"] = dict(repo=cfg["repo"], raw_hash=tables.get("raw_hash"), expanded_hash=tables.get("expanded_hash"))
    if rows:
        res["summary"]["probes"] = rows
    # one key, so that merging with other engines' summaries (lib/vstatic.py) cannot clobber anything
    res["summary"] = {"eng_tables": res["summary"]}
    return res


if __name__ == "__main__":
    import pprint
    prop = sys.argv[1] if len(sys.argv) > 1 else "C13"
    tier = sys.argv[2] if len(sys.argv) > 2 else "quick"
    out = run(prop, tier, 1)
    probs = out["problems"]
    out2 = dict(out)
    out2["problems"] = [{k: (v if k != "lines" else f"<{len(v)} lines>") for k, v in p.items()} for p in probs]
    st = out2.get("summary", {}).get("eng_tables", {})
    if "probes" in st:
        out2["summary"] = {"eng_tables": dict(st, probes=f"<{len(st['probes'])} rows>")}
    pprint.pprint(out2, width=180)
