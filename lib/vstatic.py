"""
vstatic — dispatcher for the per-property engines that are not the collector correspondence
harness: the source-fact translator + table theorems (tie T2), compile probes, the layout /
builder harness, the derive / container differential harness.

Each engine lives in lib/eng_<name>.py and exposes

    run(prop: str, tier: str, seed: int) -> dict

It is called by ./check *before* the Lean module GcArena.Props.<prop> is built, so it may
regenerate lean/GcArena/Generated/*.lean from /repo's current working tree first.  It must rebuild
whatever Rust it needs against /repo's working tree, run offline, keep scratch files under
/verif/work/, and return a dict with these keys (all optional except `problems`):

  problems: list of dicts, one per thing that no longer checks:
      { "name":  short-file-name-safe id,
        "text":  one line saying which table theorem / correspondence / probe no longer checks,
        "failing_input": bool — True when a concrete failing input / program / table entry is
                 exhibited (the replay then carries it), False when only the tie or proof broke,
        "header": list of comment lines for the replay file,
        "lines":  list of lines for the replay file body (the failing program, table entry, input),
        "key":   optional stable pattern key, matched against known_findings.txt }
  evaluations:            int, cases run by this engine (probes compiled, grid points, shapes)
  distinct_nontrivial:    int, distinct cases that are non-trivial by `rule`
  rule:                   str
  samples:                list (a few cases written out)
  programs:               int, programs / table entries validated
  disagreements_checked:  int, comparisons between model prediction and implementation made
  summary:                any JSON-able object (coverage tables etc.) copied into the evidence
  known_hits:             list of {"property":…, "key":…, "what":…} that matched known findings

An engine must never raise on a broken /repo: a build failure is a problem entry.
"""
import importlib
import os
import sys

sys.path.insert(0, os.path.dirname(os.path.abspath(__file__)))

# property -> list of engine module names (run in order, results merged)
ENGINE_MODULES = {
    "C01": ["eng_dynroots"],
    "C03": ["eng_tables", "eng_layout"],
    "C04": ["eng_layout"],
    "C09": ["eng_tables"],
    "C10": ["eng_tables"],
    "C11": ["eng_layout"],
    "C12": ["eng_brand", "eng_tables"],
    "C13": ["eng_tables"],
    "C14": ["eng_dynroots"],
    "C15": ["eng_collect"],
    "C16": ["eng_tables", "eng_collect"],
    "C17": ["eng_layout"],
    "C18": ["eng_layout"],
    "C19": ["eng_tables", "eng_conv"],
    "C20": ["eng_tables", "eng_dynroots"],
}


# engines that have been delivered, reviewed and integrated (others are skipped even if present)
READY = {"eng_brand", "eng_collect", "eng_layout", "eng_tables", "eng_dynroots", "eng_conv"}


def _merge(a, b):
    out = dict(a)
    for k, v in b.items():
        if k in ("problems", "samples", "known_hits"):
            out[k] = out.get(k, []) + list(v)
        elif k in ("evaluations", "distinct_nontrivial", "programs", "disagreements_checked"):
            out[k] = out.get(k, 0) + int(v)
        elif k == "rule":
            out[k] = (out.get(k, "") + " | " + v).strip(" |")
        elif k == "summary":
            s = out.get("summary") or {}
            s.update(v if isinstance(v, dict) else {"value": v})
            out["summary"] = s
        else:
            out[k] = v
    return out


def _make(prop, mods):
    def engine(tier, seed):
        res = {"problems": []}
        for name in mods:
            if name not in READY:
                continue
            try:
                mod = importlib.import_module(name)
            except ImportError:
                continue  # engine not built yet
            try:
                res = _merge(res, mod.run(prop, tier, seed))
            except Exception as e:  # an engine bug must not look like a pass
                res["problems"].append(dict(name=f"{name}-error", text=f"engine {name} failed: {e!r}",
                                            failing_input=False, header=[f"engine {name} raised {e!r}"], lines=[]))
        return res

    return engine


ENGINES = {}
for _p, _mods in ENGINE_MODULES.items():
    if any(m in READY and os.path.exists(os.path.join(os.path.dirname(os.path.abspath(__file__)), m + ".py")) for m in _mods):
        ENGINES[_p] = _make(_p, _mods)
