#!/usr/bin/env python3
"""Regenerates MANIFEST.json from the table below (run from /verif: python3 lib/mkmanifest.py)."""
import json, os, subprocess

ROOT = os.path.dirname(os.path.dirname(os.path.abspath(__file__)))

T1 = ("Lean 4.33 kernel; axioms propext, Classical.choice, Quot.sound only (audited by #print axioms on every run); "
      "the hand-written model lean/GcArena/Model/* is tied to /repo by the correspondence harness (every op of every generated "
      "sequence: return value, drop/release events, full collector snapshot, and in self-driven mode every counter and the exact debt "
      "are compared with the implementation built from /repo's working tree with --cfg gc_arena_verif); the monitors of "
      "harness/src/shadow.rs judge the implementation's trace independently; rustc's borrow/region checking and the global allocator are trusted; "
      "the collector model is list-level (all = pre ++ rest); the pointer-level `next`/sweep_prev surgery is proved to refine it (Proofs/PtrRefine) and the mapping of the Rust statements onto both is validated by the snapshot comparison; "
      "also trusted: Lean's compiler/runtime for the compiled model drivers (the correspondence runs the lean_exe, the theorems are about the same definitions), "
      "the drivers' Parse/Show glue and lib/*.py, that the --cfg gc_arena_verif build behaves like the shipped one (read-only hooks: an event-log field, verif_step calls, snapshot accessors), "
      "that user Collect impls report exactly the pointers they hold (C15/C16 for the provided ones), that payload destructors neither panic nor touch the arena (outside every quantifier, DESIGN 8), single-threaded execution")

CHECKS = {
 "C01": dict(level="proof", tech="Lean 4 inductive invariant (inv_run) + differential correspondence",
   text="Proof: `inv_run` shows the collector invariant (list shape, queues, tri-colour, sweep safety, closure of the safe set, barrier covers) for EVERY operation sequence of the model — all barrier paths, all collection methods under arbitrary debt or arbitrary enabled micro-step oracles, trace faults at any position; C01.safety / not_condemned / no_internal_fault / call_spares_reachable are corollaries; `deref_reads_last_store` / `slot_reads_back_run` / `collect_op_keeps_slots` (a dereference reads the last value stored: collector steps never change the slots of a surviving object, over whole histories). Tie: T1 oracle-driven correspondence of the model with the real crate plus shadow-graph monitors.",
   ref="DESIGN §3.4, §6 C01"),
 "C02": dict(level="proof", tech="Lean 4: tightness invariant of a mutation-free cycle + stability of reachability (all states, unbounded heaps) + correspondence + exact-reclamation monitor",
   text="Proof: `exactness` (after two consecutive finish_cycle calls from ANY state satisfying the invariant, an allocation is undestructed iff it was strongly reachable — cycles of garbage included, nothing retained conservatively), `shells` (whatever else is still allocated is a value-less shell weakly held by the root or a reachable object), `shell_release` (a shell no reachable weak pointer refers to is released by the next full cycle), `reachable_survives`, per-colour sweep facts; arena-level forms `exactness_run` / `shells_run` (two `finish_cycle` API ops on any run state), history-level `unnameable_released_run` / `shell_release_run` (any interleaving of mutation and incremental collection: an allocation that no chain of pointers of either kind names when a cycle wakes is released when that cycle completes; `unheld_shell_can_survive` shows by kernel evaluation why 'not weakly held at wake' alone is not enough once mutation may upgrade an only-weakly-reachable holder mid-cycle). Built on `Tight` (every marked object is justified by reachability when no mutator step intervened), `SameReach` (collector steps never change reachability) and the exit-state/termination theorems of the driver loop. Tie: T1 correspondence; monitor: finish_cycle x2 drop log = complement of shadow reachability; total_gc_count = reachable + weakly held shells.",
   ref="DESIGN §6 C02"),
 "C03": dict(level="proof", tech="Lean 4 (mutator_silent over all ops and states) + correspondence + call-graph table",
   text="Proof for the model + partial for the code's call structure (translator's call resolution by name and rustc trusted): Proof: every mutator operation (everything but collection calls and drop) leaves the event log unchanged and keeps every allocation with its liveness, in every reachable state (C03.mutator_silent_run); held pointers stay valid; link is pure. Tie: T1 correspondence; monitor: no drop/release event bracketed by a callback.",
   ref="DESIGN §6 C03"),
 "C04": dict(note=T1 + "; panicking destructors are outside the quantifier (DESIGN 8): the DropAll resume-on-panic guard is not modelled", level="proof", tech="Lean 4 log invariant over all histories + pointer-level list refinement + correspondence + allocator/drop-log monitors",
   text="Proof: `once` (no id is destructed twice or released twice in any history), `released_is_gone`, `is_dropped_exact`, `drop_arena` (after arena drop in any phase every allocation ever made is released exactly once, destructed iff it had not been), `nothing_unaccounted`; and the pointer surgery on the intrusive all-list (`next` fields, all / sweep / sweep_prev in link, Mark->Sweep, sweep_one, DropAll) refines the list-level model: `list_surgery_link/sweep/enter_sweep/end_sweep`, `no_dangling_next`, `drop_visits_all`. Tie: T1 correspondence incl. the snapshot walk of the real list (order, cursor, sweep_prev) after every op; monitors: tracking allocator (every block released exactly once with its layout) + drop log.",
   ref="DESIGN §6 C04"),
 "C05": dict(level="proof", tech="Lean 4 (upgrade sound/complete/fails-only, query safety, is_dropped exact and stable) + correspondence",
   text="Proof: upgrade_sound, upgrade_complete, upgrade_fails_only, query_safe, upgrade_condemned_fails, is_dropped exact / never reverts, for every reachable state and phase (from inv_run / linv_run); 'a weak pointer never keeps its target alive' is C02.exactness (reachability there is strong reachability only). Tie: T1/od; monitor: every weak query vs shadow graph + drop log.",
   ref="DESIGN §6 C05"),
 "C06": dict(level="proof", tech="Lean 4 (per-barrier preservation + cover calculus) + correspondence",
   text="Proof: each of the four barriers preserves the invariant, keeps every earlier barrier's guarantee and establishes its own, for every phase and colour (C06.backward_barrier, …); every store path preserves Inv; covers persist until the next collection call; general forms license any child / any parent; barriers are bookkeeping only and never fault. Tie: T1/od with explicit barrier profile.",
   ref="DESIGN §6 C06"),
 "C07": dict(level="proof", tech="Lean 4 (marked_sound, marked_exact, resurrect_protects with closure) + correspondence + is_dead monitor",
   text="Proof: marked_sound (no strongly reachable object is dead when a MarkedArena is handed out), marked_exact (if no mutation happened since this cycle's marking began, is_dead is true exactly for the objects unreachable from the root — even across trace faults), resurrect_none_iff, resurrect_marking, resurrect_queues, resurrect_protects / resurrect_protects_closure and the history-level resurrect_protects_run(_closure) (a resurrected object and everything strongly reachable from it is not destructed before the cycle completes, whatever mutation, further finalize rounds and collection increments follow, even if stored nowhere), marked_exact_run, sweep_waits_for_queue. Tie: T1/od finalize profile; is_dead / survival monitors.",
   ref="DESIGN §6 C07"),
 "C08": dict(level="proof", tech="Lean 4 (driver loop: termination measure, exit states per Stop, step-log shape) + self-driven correspondence + protocol monitor",
   text="Proof: every_call_terminates (the driver loop terminates from every invariant state for every RunUntil/Stop/pacing/debt/fault position), finish_marking_some_iff (Some exactly when not Sweeping), finish_cycle_ends_sleeping, cycle_never_rewakes (nothing follows the Sweep->Sleep switch in one cycle_debt/finish_cycle call), asserts unreachable for every history; micro-step phase order; sweep only from fully marked; mark_debt/finish_marking are no-ops from Marked and from Sweeping; start_sweeping ends Sweeping; callbacks keep the phase and never remove pending marking work (callbacks_never_finish_marking, callbacks_move_phase_only_marked_to_marking); observable_phase_order (the phase `collection_phase()` reports moves only along Sleeping -> Marking -> Marked -> Sweeping -> Sleeping under collector steps); arena-level finish_marking_some_iff_run / finish_cycle_ends_sleeping_run. Tie: T1 self-driven (the model computes debt itself; step logs compared); protocol automaton monitor.",
   ref="DESIGN §6 C08"),
 "C09": dict(level="proof", tech="Lean 4 over exact rationals: counting invariant Acc over all histories, rho-bound, sleep, stop-the-world + self-driven correspondence + debt monitors",
   text="Proof: collect_debt_zero, cycle_debt_zero_or_asleep, mark_debt_zero_or_marked (every debt-driven call returns with zero debt or at its stopping phase, from every state, any pacing/debt/fault; mark_debt called while Sweeping does nothing at all and may return with debt — the documented `Stop::FullyMarked <= Stop::AtSweep` behaviour, third disjunct of the theorem); `acc_run` (counting invariant: the credit counters are bounded by colour counts in every reachable state) => credits_bounded, rho_bound_run (history level: H and A' are read off the run — H = total_gc_count in the sleeping state a debt-driven call wakes from, A' = the accepted alloc ops since, any interleaving of mutator ops and collection calls that neither changes the pacing, nor removes artificial debt, nor completes the cycle) / rho_bound / rho_bound_quotient (a cycle that woke in debt with H allocations is unfinished after cycle_debt only if fewer than rho*H/(1-rho) allocations were made since — for any rho-pacing, provided the arena is non-empty), cycles_complete; sleep_schedule (wakeup = max(min_sleep, sleep_factor x survivors)), sleep_honoured, stays_asleep (asleep with no carried debt: debt-driven calls are no-ops and debt reads 0 until allocations exceed the threshold, positive after). Stop-the-world: `stop_the_world` / `stop_the_world_any` (with all work factors zero, collect_debt / cycle_debt called with positive debt return only Sleeping — for every fault position) and `never_parked`; on the pinned tree this clause failed in one corner (defect D5, shown by the check with replay corpus/C09-stw-empty-arena.ops, repaired by /repo commit 73a575a). `pinned_stw_witness` keeps defect D5 recognisable (the pre-repair loop of Model/Legacy.lean returns Sweeping on the corner). C09s (translator): `pacing_default_matches_source`, `pacing_stw_matches_source`, `default_impl_is_default`, `metrics_new_matches_source` — the model's Pacing::DEFAULT / STOP_THE_WORLD / Metrics::new are the source's, regenerated from src/metrics.rs on every run. f64 rounding is modelled by exact rationals; decimal (non-dyadic) pacing incl. Pacing::DEFAULT is compared tolerantly (mode odt). Tie: T1/sd exact counter and debt correspondence on dyadic pacing; monitors (zero debt, no progress asleep, rho-bound, a collection call never increases debt).",
   ref="DESIGN §6 C09, §7"),
 "C10": dict(level="proof", tech="Lean 4 (debt algebra, count exact over all histories, monotonicity per op) + self-driven correspondence in debug and release",
   text="One clause is read, not proved literally: forward_barrier / forward_barrier_weak / resurrect DO lower the debt (by at most mark_factor per newly marked object, theorem debt_forward_work) — the literal 'never decreased by write barriers' is false for these three on the unchanged tree and is recorded as a known finding (forward-like-barrier-pays-mark-credit); 'finite' is not addressed (exact rationals; non-finite f64 inputs are outside every quantifier). Proof: debt non-negative, zero for an empty arena, adjust exact; count_exact / count_zero_after_drop (total_gc_count = allocations made and not yet released, in every history); no counter underflow is a component of Inv (inv_run); debt_never_decreased (no mutator operation other than the knobs and the forward-like barriers lowers allocation_debt, in ANY state, given trace_factor >= 0), plain_metrics, plain_ops, counters_bounded (no credit counter outgrows the arena), pinned_underflow_witness (defect D1 on the pre-repair definition of Model/Legacy.lean), debt_forward_work (forward barriers / resurrect lower it by at most mark_factor per newly marked object: marking work performed by the barrier, DESIGN 8). Tie: exact comparison of every counter and of the debt (as exact rationals) after every op, in debug and release builds of the harness.",
   ref="DESIGN §6 C10, §7 D1"),
 "C11": dict(note=T1 + "; the quantifier lists trace, callback and element-constructor panics — destructor panics are not covered (DESIGN 8)", level="proof", tech="Lean 4: fault steps are ops of inv_run + fault-injecting correspondence",
   text="Proof: trace faults (k-th trace call, after j slots, object or root) and callback panics are ordinary ops, so inv_run quantifies over every fault position in every schedule incl. repeated faults; mark_one_fault, root_fault_keeps_flag. Failed constructors / builders are C04 / C18. Tie: T1/od with a shared fault plan; C01–C05 monitors on the continued history.",
   ref="DESIGN §6 C11"),
 "C12": dict(level="proof", tech="Lean 4 table theorems over a BrandTable and a BrandFlow table regenerated from source + brand calculus + rustc probe corpus",
   text="Partial (rustc trusted): general lemmas (variance_inv_of_field, invariant_marker, not_send/not_sync_of_field, binder_closed, builders_invariant_in_value_type) proved for all tables; brand-flow calculus: `brand_flow_closed` (in every program over an OK table every held brand was introduced by a still-active callback and every result brand of a call is the brand of one of its inputs), `caller_cannot_choose`, `brand_dead_after_exit`; `table_ok` / variance / auto-trait table theorems re-checked by `decide` against the tables the translators regenerate from /repo on every run (82 signatures incl. the unsafe trait methods exported safe macros call); 648 + 134 adversarial compile probes cross-validate predictions (an accepted attack probe is run and is the failing input). The corpus is a sample of programs; soundness of rustc's region/trait checking, and the translator's brand-vs-borrow classification, are trusted.",
   ref="DESIGN §6 C12", engine="brand"),
 "C20": dict(level="proof", tech="Lean 4 (frame/projection, trivial in the model) + multi-arena correspondence",
   text="Trivial in the model, partial in its tie (C20s: no statics / thread-locals in the translated source; rustc trusted): Proof (trivial in the model, stated as such): frame, projection, inv_per_arena. The assurance about the code comes from the ties: multi-arena correspondence runs (2–3 arenas, interleaved incl. nested callbacks and dropping one mid-cycle; events attributed per arena; any foreign event is a C20 violation).",
   ref="DESIGN §6 C20"),
}

TS = ("Lean 4.33 kernel; axioms propext, Classical.choice, Quot.sound only; the model is hand-written and tied to /repo by a differential "
      "harness built against /repo's working tree on every run; rustc, std::alloc::Layout, the global allocator and type layout are trusted")

CHECKS.update({
 "C15": dict(level="proof", tech="Lean 4 model of the derive algorithm (structural induction) + generated-shape differential + rustc rejection probes", engine="collect",
   text="The derive algorithm is modelled by hand (not translated) and validated by the generated-shape differential; Proof (of the modelled algorithm): exact / exact_through_trace / every_type_exact (the derived trace reports exactly the pointers of every well-typed value, for every declaration and nesting), needs_trace_exact / needs_trace_sound, one rejects_* theorem per listed misuse. Tie: the derive is a proc-macro, so the tie is differential — random #[derive(Collect)] declarations generated per run, traced with a recording Trace, compared with the model driver (derivemodel); 65 rejection probes compiled with rustc. Two literal deviations in type-level require_static mode are known findings.",
   ref="DESIGN §6 C15", note=TS + "; the macro source is modelled by hand, not translated"),
 "C17": dict(level="proof", tech="Lean 4 arithmetic theorems over all sizes/alignments/lengths + allocator-level differential harness", engine="layout",
   text="Proof: 14 theorems, universally quantified over sizes, power-of-two alignments, lengths, block addresses, metadata kinds (value/header/meta aligned, disjoint, dealloc_same_layout, thin_fat_roundtrip, tag bits, stable …). Tie: harness_layout exercises the real crate over grids (33k cases quick) under a tracking allocator and compares requested/released layouts, offsets, tag words and std::alloc::Layout itself with the model driver (layoutmodel).",
   ref="DESIGN §6 C17", note=TS),
 "C18": dict(level="proof", tech="Lean 4 builder state machine (all action sequences) + builder differential harness", engine="layout",
   text="Proof: abandon / abandon_events / ctor_panic / complete* / wrong_len / layout for every action sequence and every n, k. Tie: every builder kind x abandonment point x element kind against the real crate (drop-token log, allocator log, metrics before/after) compared with the model.",
   ref="DESIGN §6 C18", note=TS),
})

TT = ("Lean 4.33 kernel; axioms propext, Classical.choice, Quot.sound only; the tables under lean/GcArena/Generated are REGENERATED from /repo's "
      "working tree by the syn-based translator extract/ on every run and the table theorems re-checked by `decide`; the translator's "
      "classification tables (ownership class of std receivers, which positions a container stores, call resolution by name) and rustc's "
      "borrow / region / trait checking, `unsafe` gating and parametricity of safe generic code are trusted; compile probes cross-validate")

CHECKS.update({
 "C13": dict(level="proof", tech="Lean 4 Write-capability calculus over a DerefWriteTable regenerated from source + rustc probes", engine="tables",
   text="Partial (rustc trusted): `covered` — for every table satisfying Table.ok every derivable Write capability / unlocked store is pointer-free or has all its holders barriered (so every accepted program's stores are guarded stores of the collector model, to which C01 applies); `table_ok` by `decide` on the table regenerated from /repo each run (DerefWrite receivers exclusive or 'static; every IndexWrite impl's index type closed: concrete, upstream-proved, or delegating to a closed receiver — `unsound_witness_client_index`, `mutant_witness`; marker traits unsafe; raw unlock sites barriered); `cells_static`; `unsound_witnesses`; bridge to the collector model: `covered_is_collector_cover` / `derived_store_is_guarded_store` (every store derivable in the calculus under the callback's issued barriers passes the collector model's cover guard and is an accepted `Op.store .raw` preserving Inv). 170+ probes (one per Write constructor / DerefWrite / IndexWrite / Unlock impl / field! misuse / Cell holding a Gc) compiled with rustc, accepted ones run. The pinned tree failed table_ok for &T, Rc<T>, Arc<T> (defects D2a/D2b, fixed).",
   ref="DESIGN §6 C13, §7", note=TT),
 "C16": dict(level="proof", tech="Lean 4 structural induction over type shapes for every complete CollectTable + recording-tracer differential", engine="tables+collect",
   text="Partial in its tie (the CollectTable comes from a syn translator whose classification of std container shapes is trusted; rustc trusted): Proof: `exact` — for every complete table, every type shape and well-typed value, the provided trace reports exactly the contained pointers (strong as strong, weak as weak) in every parameter / element position and size, and NEEDS_TRACE = false implies no pointers; `table_complete` by `decide +kernel` on the 77-entry table regenerated from the macro-expanded crate each run; `needs_trace_mono`. Tie 2: harness_collect builds every provided container with distinct pointers in every position x size and records what Trace::trace reports (1029 cases quick, all features; per-feature builds in thorough), plus end-to-end survival runs.",
   ref="DESIGN §6 C16", note=TT + "; std / third-party iterators are trusted to visit every element"),
 "C19": dict(level="proof", tech="Lean 4: conversion-chain model (identity by induction over chains, metadata exactness, collector corollaries from inv_run / linv_run, ZstCache rule) + differential conversion harness; signature-table theorem (no conjuring) over a SigTable regenerated from source + rustc probes",
   text="Dynamic half — the identity theorems are immediate from how the conversion model is built (every step keeps (object, offset)); the assurance about the code comes from harness_conv; theorems: `same_object` / `from_alloc` (every well-typed chain of erase, erase_kind, cast, as_thin / as_fat, as_ptr / from_ptr, unsize!, downgrade / upgrade, stash-fetch, of any length, yields the same object and address), `fails_iff_dead_upgrade`, `upgrade_rule_is_collectors`, `metadata_exact` / `length_exact` / thin-fat round trips, `collector_view` + `converted_keeps_alive` / `converted_weak_block_stays` / `destructed_once` (corollaries of inv_run / linv_run: keeping the converted pointer keeps the value; destructed and released once), ZstCache: `zst_shared_iff`, `zst_alloc`, `zst_shared_alias`, `zst_value_destructed_once`, `zst_cached_ptr_aligned` (from C17's layout theorems). Tie: harness_conv executes every well-typed chain up to length 4 (random longer ones in thorough) over sized / array / slice / str / dyn / ZST targets x placement x schedule x phase x age against the real crate with ptr_eq, payload, survival, once-as-original-type and allocator monitors, compares with the model driver; ZstCache grid; rustc typing probes; Miri subset in thorough. Static half (partial, rustc + parametricity trusted): `no_conjure` by `decide` over the table of every safe public fn / macro whose result contains Gc<T>/GcWeak<T>, regenerated from /repo each run; `pinned_conjure_witness` (defect D3, fixed).",
   ref="DESIGN §6 C19, §7", engine="tables", note=TT),
})

CHECKS.update({
 "C14": dict(level="proof", tech="Lean 4 invariant proof of the DynamicRootSet slot-table model over all stash/clone/drop/fetch histories + differential correspondence with the real crate (slot-table hook) and drop-log monitors",
   text="Proof: `DynRoots.inv_run` (every history of stash / stash-again / clone / drop / fetch / try_fetch / contains / set and arena destruction across any number of sets and arenas): `refine` (slot h.index holds h.ptr with ref_count = live handles of that stash), `traced` / `traced_multiset` (the set object reports exactly one pointer per live stash), `traced_while_handle`, `untraced_after_last_drop`, `fetch_identity` (own handle: the stashed pointer; foreign or destroyed-set handle: try_fetch fails, contains false, fetch panics), `free_list`, `no_internal_panic`, `outlive`, `destroyed_forever`. Composition with the collector as theorems over coupled histories (C14s / Proofs/DynCompose: the set object's slots mirror the slot table after every coupled operation sequence — stash = backward barrier + licensed raw store, last-handle drop = clearing the slot outside any callback): `stashed_survives_while_handle`, `collectable_after_last_drop` (via C02.exactness_run), `fetch_is_the_stashed_object`; restrictions stated there: one arena, sets pinned in root slots, fixed slot capacity. Tie 1: harness_dynroots drives the real DynamicRootSet (several sets and arenas, collection increments in every phase, slot reuse, handles outliving arenas), compares the slot table after every operation with the model, and monitors premature destruction / non-collection / foreign acceptance through drop tokens.",
   ref="DESIGN §6 C14, §12", engine="dynroots", note="Lean 4.33 kernel; axioms propext, Classical.choice, Quot.sound; `Weak::as_ptr` of a dropped Rc never equals a live Rc's address (modelled as never-reused set ids), Vec/RefCell/Rc semantics, 64-bit usize sentinel and non-overflowing ref counts are trusted; the moment an unlinked set is destructed is not observable, the harness tells the model at unlinking"),
})

PENDING = {
}

def main():
    props = [json.loads(l)["id"] for l in open(os.path.join(ROOT, "properties.jsonl"))]
    commits = subprocess.run(["git", "-C", "/repo", "log", "--format=%h %s"], capture_output=True, text=True).stdout.splitlines()
    hooks = [c.split()[0] for c in commits if "gc_arena_verif" in c]
    man = {
        "version": 1,
        "setup_cmd": "./setup.sh",
        "hooks": {
            "guard": "gc_arena_verif",
            "enable": "rustflags = [\"--cfg\", \"gc_arena_verif\"] in harness/.cargo/config.toml (the harness has a path dependency on /repo)",
            "baseline_off_cmd": "cd /repo && cargo test --workspace --no-fail-fast --offline",
            "source_commits": hooks,
            "add_only": True,
        },
        "engines": [
            {"name": "collector", "path": "lean/ harness/ lib/vcheck.py", "serves_properties": [p for p in sorted(CHECKS) if CHECKS[p].get("engine") is None],
             "kind_free_text": "Lean 4 model + inductive invariant; Rust correspondence harness (line protocol) + monitors"},
            {"name": "layout", "path": "harness_layout/ lib/eng_layout.py lean/GcArena/Model/{Layout,Builder}.lean lean/LayoutMain.lean", "serves_properties": ["C17", "C18"],
             "kind_free_text": "Lean arithmetic / state-machine theorems; allocator-level differential harness"},
            {"name": "collect", "path": "harness_collect/ lib/eng_collect.py lean/GcArena/Model/Derive.lean lean/DeriveMain.lean", "serves_properties": ["C15"],
             "kind_free_text": "Lean model of derive(Collect); generated-shape differential; rustc rejection probes"},
            {"name": "tables", "path": "extract/ probes/ lib/eng_tables.py lean/GcArena/Generated/ lean/GcArena/Model/{WriteCap,Conjure,CollectTy,CallGraphM}.lean", "serves_properties": ["C13", "C16", "C19", "C03", "C20"],
             "kind_free_text": "syn translator over raw + macro-expanded source -> Lean tables; table theorems; rustc probes"},
            {"name": "conv", "path": "harness_conv/ lib/eng_conv.py lean/GcArena/Model/Conv.lean lean/ConvMain.lean", "serves_properties": ["C19"],
             "kind_free_text": "conversion-chain differential harness (tracking allocator, destructor log) + Lean conversion model driver"},
            {"name": "dynroots", "path": "harness_dynroots/ lib/eng_dynroots.py lean/GcArena/Model/DynRoots.lean lean/DynMain.lean", "serves_properties": ["C14", "C20"],
             "kind_free_text": "DynamicRootSet correspondence harness (slot-table hook, drop tokens) + Lean slot-table model driver"},
            {"name": "brand", "path": "extract_brand/ probes_brand/ lib/eng_brand.py lean/GcArena/Model/Brand.lean", "serves_properties": ["C12"],
             "kind_free_text": "syn translator -> Lean table theorems; rustc probe corpus"},
        ],
        "checks": [],
        "not_applicable": [],
        "notes": "Known findings: known_findings.txt. Every check: ./check <id> --tier quick|thorough; replays: ./check <id> --replay <file>.",
    }
    for p in props:
        if p in CHECKS:
            c = CHECKS[p]
            man["checks"].append({
                "property_id": p,
                "quick_cmd": f"./check {p} --tier quick",
                "thorough_cmd": f"./check {p} --tier thorough",
                "evidence_file": f"evidence/{p}.json",
                "replay_cmd_template": f"./check {p} --replay {{path}}",
                "engine": c.get("engine", "collector"),
                "level_claimed": {"category": c["level"], "text": c["text"], "design_ref": c["ref"]},
                "level_note": c.get("note", T1),
                "technique": c["tech"],
            })
        else:
            man["not_applicable"].append({"property_id": p, "reason": PENDING.get(p, "not claimed")})
    with open(os.path.join(ROOT, "MANIFEST.json"), "w") as f:
        json.dump(man, f, indent=1)
        f.write("\n")

if __name__ == "__main__":
    main()
