"""
eng_layout — engine of properties C17 (allocation layout integrity) and C18 (builders).

Tie T1 of DESIGN §C17/§C18: the Rust harness /verif/harness_layout exercises the REAL gc-arena
crate (path dependency on /repo's working tree, so edits to /repo are picked up by cargo) under
a tracking global allocator and prints, per case, the query line understood by the Lean model
driver `layoutmodel` (lean/LayoutMain.lean over GcArena.Model.Layout / GcArena.Model.Builder)
and the observed answer in the driver's canonical format.  This module builds both, runs the
harness, pipes the query lines to the model and compares line by line.

    run(prop, tier, seed) -> dict         (contract: docstring of lib/vstatic.py)
    replay(prop, path)    -> dict         same, restricted to the query lines of a replay file

A problem is
  * an implementation-side monitor failure (misaligned pointer, layout mismatch on release, wrong
    released address, double free, guard bytes damaged, outstanding block, wrong drop-token log,
    metrics changed by an abandoned builder, byte pattern / metadata damaged, unexpected panic,
    harness process killed)                                   -> failing_input = True, the replay
    carries the `config` line and the failing query lines ((size, align[, len]) / builder case);
  * a disagreement between model and implementation with no monitor firing
                                                              -> failing_input = False;
  * a build failure of the harness (broken /repo) or of the model -> failing_input = False.

Environment overrides (used to validate the engine against scratch mutants of /repo):
  GCV_LAYOUT_HARNESS  harness crate directory   (default /verif/harness_layout)
  GCV_LEAN_DIR        Lean project directory    (default /verif/lean)
  GCV_REPO            crate under test, only used to copy Cargo.lock (default /repo)
"""
import collections
import os
import re
import shutil
import subprocess
import time

ROOT = os.path.dirname(os.path.dirname(os.path.abspath(__file__)))
HARNESS = os.environ.get("GCV_LAYOUT_HARNESS", os.path.join(ROOT, "harness_layout"))
LEAN = os.environ.get("GCV_LEAN_DIR", os.path.join(ROOT, "lean"))
REPO = os.environ.get("GCV_REPO", "/repo")
WORK = os.path.join(ROOT, "work")

ENV = dict(os.environ)
ENV["CARGO_NET_OFFLINE"] = "true"
ENV.setdefault("CARGO_TERM_COLOR", "never")

MAX_RESTARTS = 12
MAX_PROBLEMS = 6          # distinct problem groups reported
MAX_LINES = 12            # failing queries carried by one replay


def _run(cmd, cwd, timeout):
    try:
        p = subprocess.run(cmd, cwd=cwd, env=ENV, stdout=subprocess.PIPE, stderr=subprocess.STDOUT,
                           timeout=timeout, text=True, errors="replace")
        return p.returncode, p.stdout
    except subprocess.TimeoutExpired as e:
        return 124, f"timeout after {timeout}s: {e}"
    except OSError as e:
        return 127, repr(e)


def _build_problem(name, what, out):
    tail = [l for l in out.strip().splitlines() if l.strip()][-25:]
    return dict(name=name, text=f"{what} (see replay header for the build log tail)", failing_input=False,
                header=[what] + tail, lines=[])


def build_harness():
    lock = os.path.join(HARNESS, "Cargo.lock")
    src = os.path.join(REPO, "Cargo.lock")
    try:
        if os.path.exists(src) and (not os.path.exists(lock)):
            shutil.copy(src, lock)
    except OSError:
        pass
    t = time.time()
    rc, out = _run(["cargo", "build", "--offline"], HARNESS, 3000)
    exe = os.path.join(HARNESS, "target", "debug", "gcverif-layout")
    return rc == 0 and os.path.exists(exe), out, exe, round(time.time() - t, 1)


def build_model():
    t = time.time()
    rc, out = _run(["lake", "build", "layoutmodel"], LEAN, 3000)
    exe = os.path.join(LEAN, ".lake", "build", "bin", "layoutmodel")
    return rc == 0 and os.path.exists(exe), out, exe, round(time.time() - t, 1)


class Case:
    __slots__ = ("idx", "query", "answer", "monitors", "ended")

    def __init__(self, idx, query):
        self.idx = idx
        self.query = query
        self.answer = None
        self.monitors = None
        self.ended = False


def run_harness(exe, prop, tier, seed, only=None, tag="run"):
    """Run the harness (restarting after a crash), return (config line, cases, crashes, global monitors, secs)."""
    os.makedirs(WORK, exist_ok=True)
    cases = []
    crashes = []
    global_mon = []
    config = None
    start = 0
    t = time.time()
    for attempt in range(MAX_RESTARTS + 1):
        outp = os.path.join(WORK, f"layout-{prop}-{tag}-{attempt}.out")
        cmd = [exe, "--prop", prop, "--tier", tier, "--seed", str(seed), "--start", str(start)]
        if only:
            cmd += ["--only", only]
        with open(outp, "w") as f:
            try:
                p = subprocess.run(cmd, env=ENV, stdout=f, stderr=subprocess.PIPE, timeout=3000, text=True, errors="replace")
                rc, err = p.returncode, p.stderr[-2000:]
            except subprocess.TimeoutExpired:
                rc, err = 124, "timeout"
        cur = {}
        finished = False
        last = None
        with open(outp, errors="replace") as f:
            for line in f:
                line = line.rstrip("\n")
                t_, _, rest = line.partition(" ")
                if t_ == "S":
                    i, _, q = rest.partition(" ")
                    c = Case(int(i), q)
                    cur[c.idx] = c
                    cases.append(c)
                    last = c
                elif t_ == "A":
                    i, _, a = rest.partition(" ")
                    c = cur.get(int(i))
                    if c is not None:
                        c.answer = a
                elif t_ == "M":
                    i, _, m = rest.partition(" ")
                    c = cur.get(int(i)) if i.isdigit() else None
                    if c is not None:
                        if c.monitors is None:
                            c.monitors = []
                        c.monitors.append(m)
                    else:
                        global_mon.append(m)
                elif t_ == "E":
                    c = cur.get(int(rest)) if rest.strip().isdigit() else None
                    if c is not None:
                        c.ended = True
                elif t_ == "C":
                    config = rest
                elif t_ == "Z":
                    finished = True
        if finished and rc == 0:
            break
        # the process died: the last started case is the culprit
        if last is not None and not last.ended:
            crashes.append((last, rc, err))
            if last.monitors is None:
                last.monitors = []
            last.monitors.append(f"harness process died in this case (exit status {rc}) {err.strip()[-300:]}")
            start = last.idx
        else:
            crashes.append((None, rc, err))
            break
    return config, cases, crashes, global_mon, round(time.time() - t, 1)


def ask_model(exe, config, cases):
    inp = os.path.join(WORK, "layout-model.in")
    with open(inp, "w") as f:
        f.write(config + "\n")
        for c in cases:
            f.write(c.query + "\n")
    t = time.time()
    with open(inp) as f:
        p = subprocess.run([exe], stdin=f, stdout=subprocess.PIPE, stderr=subprocess.PIPE, text=True, timeout=3000)
    ans = p.stdout.splitlines()
    return p.returncode, ans, p.stderr[-2000:], round(time.time() - t, 1)


_NUM = re.compile(r"\d+")


def _sig(text):
    return _NUM.sub("N", re.sub(r"\[[^\]]*\]", "[..]", text))[:160]


def _family(query):
    w = query.split()
    if not w:
        return "?"
    if w[0] == "L":
        return "L-" + w[1]
    if w[0] == "dst":
        return "dst-" + w[1]
    if w[0] == "builder":
        return "builder-" + w[1]
    return w[0]


def _failing_input_desc(query):
    w = query.split()
    try:
        if w[0] == "sized":
            return f"value (size {w[3]}, align {w[4]}) with per-value metadata (size {w[1]}, align {w[2]})"
        if w[0] == "dst":
            return f"{w[1]} header (size {w[2]}, align {w[3]}) element (size {w[4]}, align {w[5]}) length {w[6]}"
        if w[0] == "builder":
            return (f"{w[1]} builder ({w[2]}) header (size {w[3]}, align {w[4]}{', destructor' if w[8] == '1' else ''}) "
                    f"element (size {w[5]}, align {w[6]}{', destructor' if w[9] == '1' else ''}) n={w[7]} action {' '.join(w[10:])}")
        if w[0] == "tag":
            return f"header word for colour {w[2]} needs_trace {w[3]} live {w[4]}"
    except IndexError:
        pass
    return query


def _is_nontrivial(c):
    a = c.answer or ""
    return not (a == "none" or a.startswith("no-") or a == "bad-query")


def analyse(prop, tier, seed, config, cases, crashes, global_mon, model_ans, timings):
    problems = []
    groups = collections.OrderedDict()   # signature -> dict(kind, cases)
    n_monitor_cases = 0
    n_disagree = 0
    fam = collections.Counter()
    fam_none = collections.Counter()
    distinct = set()
    actions = collections.Counter()
    for c, m in zip(cases, model_ans):
        f = _family(c.query)
        fam[f] += 1
        if _is_nontrivial(c):
            distinct.add(c.query)
        else:
            fam_none[f] += 1
        if f.startswith("builder-"):
            w = c.query.split()
            actions[f"{w[1]}:{w[10]}"] += 1
        if c.monitors:
            n_monitor_cases += 1
            sig = "monitor|" + f + "|" + _sig(c.monitors[0])
            g = groups.setdefault(sig, dict(kind="monitor", cases=[]))
            g["cases"].append((c, m))
        elif c.answer != m or not c.ended:
            n_disagree += 1
            sig = "diff|" + f + "|" + _sig(f"{c.answer} / {m}")
            if sig not in groups and sum(1 for s in groups if s.startswith("diff|" + f)) >= 2:
                sig = "diff|" + f + "|other"
            g = groups.setdefault(sig, dict(kind="diff", cases=[]))
            g["cases"].append((c, m))
    # monitor groups first, then disagreements; biggest first inside each class
    ordered = sorted(groups.items(), key=lambda kv: (kv[1]["kind"] != "monitor", -len(kv[1]["cases"])))
    for k, (sig, g) in enumerate(ordered[:MAX_PROBLEMS]):
        cs = sorted(g["cases"], key=lambda cm: (len(cm[0].query), cm[0].query))[:MAX_LINES]
        c0, m0 = cs[0]
        famname = _family(c0.query)
        if g["kind"] == "monitor":
            text = (f"{prop} monitor fired on the implementation for {_failing_input_desc(c0.query)}: {c0.monitors[0]} "
                    f"[{len(g['cases'])} case(s) with this signature]")
        else:
            text = (f"{prop} correspondence: model and implementation disagree on `{c0.query}`: impl `{c0.answer}` vs model `{m0}` "
                    f"[{len(g['cases'])} case(s) with this signature, no implementation monitor fired]")
        header = [text, f"harness: {HARNESS} (gc-arena from {REPO}); tier={tier} seed={seed}",
                  "the body lists the model `config` line and the failing query lines "
                  "(sized <meta size> <meta align> <value size> <value align> | dst <kind> <hdr size> <hdr align> <elem size> <elem align> <len> | builder …)",
                  f"replay: python3 -c \"import sys; sys.path.insert(0,'{ROOT}/lib'); import eng_layout, json; print(json.dumps(eng_layout.replay('{prop}', '<this file>'), indent=1))\""]
        lines = [config or "config ?"]
        for c, m in cs:
            header.append(f"  {c.query}")
            header.append(f"      impl : {c.answer}")
            header.append(f"      model: {m}")
            for mm in (c.monitors or [])[:4]:
                header.append(f"      MONITOR: {mm}")
            lines.append(c.query)
        name = re.sub(r"[^A-Za-z0-9]+", "-", f"layout-{g['kind']}-{famname}-{k}").strip("-")
        problems.append(dict(name=name, text=text, failing_input=(g["kind"] == "monitor"), header=header, lines=lines,
                             key=re.sub(r"[^A-Za-z0-9]+", "-", sig)[:80].strip("-").lower()))
    if len(ordered) > MAX_PROBLEMS:
        rest = sum(len(g["cases"]) for _, g in ordered[MAX_PROBLEMS:])
        problems[-1]["header"].append(f"({len(ordered) - MAX_PROBLEMS} further problem groups with {rest} cases not written out)")
    for m in global_mon:
        problems.append(dict(name="layout-header-probe", text=f"{prop}: {m}", failing_input=False, header=[m], lines=[config or ""]))
    for c, rc, err in crashes:
        if c is None:
            problems.append(dict(name="layout-harness-died", text=f"{prop}: the layout harness died outside any case (exit {rc}): {err.strip()[-300:]}",
                                 failing_input=False, header=[err.strip()[-1500:]], lines=[]))
    samples = []
    seenf = set()
    for c, m in zip(cases, model_ans):
        f = _family(c.query)
        if f not in seenf and _is_nontrivial(c) and not f.startswith("L-"):
            seenf.add(f)
            samples.append(dict(query=c.query, implementation=c.answer, model=m))
    rule = ("a case is one query line = (family, every size / alignment / length / flag / action parameter); non-trivial when the "
            "implementation actually allocated or computed a layout (answer is not `none`); counted distinct by the full query line")
    summary = {
        f"layout_{prop}": dict(
            config=config, tier=tier, seed=seed, cases=len(cases), by_family=dict(fam), answered_none_by_family=dict(fam_none),
            monitor_cases=n_monitor_cases, disagreements=n_disagree, harness_crashes=len(crashes),
            builder_kind_action=dict(actions) if actions else None, timings_s=timings)
    }
    return dict(problems=problems, evaluations=len(cases), distinct_nontrivial=len(distinct), rule=rule, samples=samples[:6],
                programs=0, disagreements_checked=len(model_ans), summary=summary)


def _go(prop, tier, seed, only=None, tag="run"):
    if prop not in ("C17", "C18"):
        return dict(problems=[dict(name="layout-bad-prop", text=f"eng_layout does not handle {prop}", failing_input=False, header=[], lines=[])])
    timings = {}
    okh, outh, hexe, timings["build_harness"] = build_harness()
    okm, outm, mexe, timings["build_model"] = build_model()
    problems = []
    if not okh:
        problems.append(_build_problem("layout-harness-build", f"{prop}: the layout harness does not build against {REPO}'s working tree", outh))
    if not okm:
        problems.append(_build_problem("layout-model-build", f"{prop}: `lake build layoutmodel` failed in {LEAN}", outm))
    if problems:
        return dict(problems=problems, evaluations=0, distinct_nontrivial=0, disagreements_checked=0,
                    summary={f"layout_{prop}": dict(timings_s=timings, built=False)})
    config, cases, crashes, global_mon, timings["harness"] = run_harness(hexe, prop, tier, seed, only=only, tag=tag)
    if config is None or (not cases and not only):
        return dict(problems=[dict(name="layout-harness-silent", text=f"{prop}: the layout harness produced no cases",
                                   failing_input=False, header=[repr(crashes)[:1500]], lines=[])],
                    evaluations=0, distinct_nontrivial=0, disagreements_checked=0)
    rc, ans, err, timings["model"] = ask_model(mexe, config, cases)
    if rc != 0 or not ans or ans[0] != "config ok" or len(ans) != len(cases) + 1:
        first = ans[0] if ans else ""
        return dict(problems=[dict(name="layout-model-protocol",
                                   text=f"{prop}: layoutmodel rejected the harness output (exit {rc}, first line `{first}`, {len(ans)} answers for {len(cases)} queries): {err[-300:]}",
                                   failing_input=False, header=[config or ""], lines=[])],
                    evaluations=len(cases), distinct_nontrivial=0, disagreements_checked=0)
    t = time.time()
    res = analyse(prop, tier, seed, config, cases, crashes, global_mon, ans[1:], timings)
    timings["compare"] = round(time.time() - t, 1)
    return res


def run(prop, tier, seed):
    return _go(prop, "thorough" if tier == "thorough" else "quick", int(seed))


def replay(prop, path):
    """Re-run only the query lines of a replay file (any tier's grid is searched for them)."""
    tier, seed = "thorough", 1
    try:
        m = re.search(r"tier=(\w+) seed=(\d+)", open(path).read())
        if m:
            tier, seed = m.group(1), int(m.group(2))
    except OSError:
        pass
    res = _go(prop, tier, seed, only=path, tag="replay")
    if not res.get("evaluations") and tier != "thorough":
        res = _go(prop, "thorough", seed, only=path, tag="replay")
    return res


if __name__ == "__main__":
    import json
    import sys
    a = sys.argv[1:]
    if len(a) >= 2 and a[0] == "replay":
        r = replay(a[1], a[2])
    else:
        r = run(a[0] if a else "C17", a[1] if len(a) > 1 else "quick", int(a[2]) if len(a) > 2 else 1)
    print(json.dumps(r, indent=1)[:6000])
    print("problems:", len(r["problems"]))
