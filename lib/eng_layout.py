"""
eng_layout — engine of properties C17 (allocation layout integrity) and C18 (builders), of the
builder clause of C11, of C03's clause "no value is destructed and no allocation is released while
a callback is running" judged on every builder scenario / constructor / fault sequence (`--prop
C03`, monitor lines `C03: …`; model disagreements are left to C18), and of C04's clause "returned
to the global allocator with exactly the layout it was requested with" over release histories
(`--prop C04`, `pair …` cases: sweep, weak-shell release, arena drop in every phase, abandoned
builder — zero-sized kinds included).  Builder clause of C11 (panic safety: "if an element constructor passed to a slice builder panics
at any index … an abandoned builder destructs exactly the parts that were initialised").

For C11 the harness runs (`--prop C11`, harness_layout/src/c11.rs) sequences of builder faults on
ONE arena: a panicking element constructor at every index k = 0 … n-1 and k = n (completes), the
builder dropped right after `write_header`, `copy_slice` / `copy_str` length mismatches, repeated
faults — for header / element types with and without destructor, zero-sized and over-aligned.
Every step is a `builder …` query compared with the Lean builder model as for C18; after every
caught unwind the arena must still be usable (a following allocation + full collection cycle
behaves, Gc count / debt unchanged by the abandoned builder, nothing destructed twice — checked
per step and over the whole history at teardown).  (The collector side of C11 — trace / callback
faults — is the collector harness of lib/vcheck.py; both run for `./check C11`.)

Tie T1 of DESIGN §C17/§C18: the Rust harness /verif/harness_layout exercises the REAL gc-arena
crate (path dependency on /repo's working tree, so edits to /repo are picked up by cargo) under
a tracking global allocator and prints, per case, the query line understood by the Lean model
driver `layoutmodel` (lean/LayoutMain.lean over GcArena.Model.Layout / GcArena.Model.Builder)
and the observed answer in the driver's canonical format.  This module builds both, runs the
harness, pipes the query lines to the model and compares line by line.

    run(prop, tier, seed) -> dict         (contract: docstring of lib/vstatic.py)
    replay(prop, path)    -> dict         same, restricted to the query lines of a replay file

A problem is
  * an implementation-side monitor failure (misaligned pointer, layout mismatch on release, wrong
    released address, double free, guard bytes damaged, outstanding block, wrong drop-token log,
    metrics changed by an abandoned builder, byte pattern / metadata damaged, unexpected panic,
    harness process killed)                                   -> failing_input = True, the replay
    carries the `config` line and the failing query lines ((size, align[, len]) / builder case);
  * a disagreement between model and implementation with no monitor firing
                                                              -> failing_input = False;
  * a build failure of the harness (broken /repo) or of the model -> failing_input = False.

Environment overrides (used to validate the engine against scratch mutants of /repo):
  GCV_LAYOUT_HARNESS  harness crate directory   (default /verif/harness_layout)
  GCV_LEAN_DIR        Lean project directory    (default /verif/lean)
  GCV_REPO            crate under test, only used to copy Cargo.lock (default /repo)
"""
import collections
import os
import re
import shutil
import subprocess
import time

ROOT = os.path.dirname(os.path.dirname(os.path.abspath(__file__)))
HARNESS = os.environ.get("GCV_LAYOUT_HARNESS", os.path.join(ROOT, "harness_layout"))
LEAN = os.environ.get("GCV_LEAN_DIR", os.path.join(ROOT, "lean"))
REPO = os.environ.get("GCV_REPO", "/repo")
WORK = os.path.join(ROOT, "work")

ENV = dict(os.environ)
ENV["CARGO_NET_OFFLINE"] = "true"
ENV.setdefault("CARGO_TERM_COLOR", "never")

MAX_RESTARTS = 12
MAX_PROBLEMS = 6          # distinct problem groups reported
MAX_LINES = 12            # failing queries carried by one replay


def _run(cmd, cwd, timeout):
    try:
        p = subprocess.run(cmd, cwd=cwd, env=ENV, stdout=subprocess.PIPE, stderr=subprocess.STDOUT,
                           timeout=timeout, text=True, errors="replace")
        return p.returncode, p.stdout
    except subprocess.TimeoutExpired as e:
        return 124, f"timeout after {timeout}s: {e}"
    except OSError as e:
        return 127, repr(e)


def _build_problem(name, what, out):
    tail = [l for l in out.strip().splitlines() if l.strip()][-25:]
    return dict(name=name, text=f"{what} (see replay header for the build log tail)", failing_input=False,
                header=[what] + tail, lines=[])


def build_harness():
    lock = os.path.join(HARNESS, "Cargo.lock")
    src = os.path.join(REPO, "Cargo.lock")
    try:
        if os.path.exists(src) and (not os.path.exists(lock)):
            shutil.copy(src, lock)
    except OSError:
        pass
    t = time.time()
    rc, out = _run(["cargo", "build", "--offline"], HARNESS, 3000)
    exe = os.path.join(HARNESS, "target", "debug", "gcverif-layout")
    return rc == 0 and os.path.exists(exe), out, exe, round(time.time() - t, 1)


def build_model():
    t = time.time()
    rc, out = _run(["lake", "build", "layoutmodel"], LEAN, 3000)
    exe = os.path.join(LEAN, ".lake", "build", "bin", "layoutmodel")
    return rc == 0 and os.path.exists(exe), out, exe, round(time.time() - t, 1)


class Case:
    __slots__ = ("idx", "query", "answer", "monitors", "ended")

    def __init__(self, idx, query):
        self.idx = idx
        self.query = query
        self.answer = None
        self.monitors = None
        self.ended = False


def run_harness(exe, prop, tier, seed, only=None, tag="run"):
    """Run the harness (restarting after a crash), return (config line, cases, crashes, global monitors, secs)."""
    os.makedirs(WORK, exist_ok=True)
    cases = []
    crashes = []
    global_mon = []
    notes = []
    config = None
    start = 0
    t = time.time()
    for attempt in range(MAX_RESTARTS + 1):
        outp = os.path.join(WORK, f"layout-{prop}-{tag}-{attempt}.out")
        cmd = [exe, "--prop", prop, "--tier", tier, "--seed", str(seed), "--start", str(start)]
        if only:
            cmd += ["--only", only]
        with open(outp, "w") as f:
            try:
                p = subprocess.run(cmd, env=ENV, stdout=f, stderr=subprocess.PIPE, timeout=3000, text=True, errors="replace")
                rc, err = p.returncode, p.stderr[-2000:]
            except subprocess.TimeoutExpired:
                rc, err = 124, "timeout"
        cur = {}
        finished = False
        last = None
        with open(outp, errors="replace") as f:
            for line in f:
                line = line.rstrip("\n")
                t_, _, rest = line.partition(" ")
                if t_ == "S":
                    i, _, q = rest.partition(" ")
                    c = Case(int(i), q)
                    cur[c.idx] = c
                    cases.append(c)
                    last = c
                elif t_ == "A":
                    i, _, a = rest.partition(" ")
                    c = cur.get(int(i))
                    if c is not None:
                        c.answer = a
                elif t_ == "M":
                    i, _, m = rest.partition(" ")
                    c = cur.get(int(i)) if i.isdigit() else None
                    if c is not None:
                        if c.monitors is None:
                            c.monitors = []
                        c.monitors.append(m)
                    else:
                        global_mon.append(m)
                elif t_ == "E":
                    c = cur.get(int(rest)) if rest.strip().isdigit() else None
                    if c is not None:
                        c.ended = True
                elif t_ == "C":
                    config = rest
                elif t_ == "N":
                    notes.append(rest)
                elif t_ == "Z":
                    finished = True
        if finished and rc == 0:
            break
        # the process died: the last started case is the culprit
        if last is not None and not last.ended:
            crashes.append((last, rc, err))
            if last.monitors is None:
                last.monitors = []
            last.monitors.append(f"harness process died in this case (exit status {rc}) {err.strip()[-300:]}")
            start = last.idx
        else:
            crashes.append((None, rc, err))
            break
    return config, cases, crashes, global_mon, round(time.time() - t, 1)


def ask_model(exe, config, cases):
    inp = os.path.join(WORK, "layout-model.in")
    with open(inp, "w") as f:
        f.write(config + "\n")
        for c in cases:
            f.write(c.query + "\n")
    t = time.time()
    with open(inp) as f:
        p = subprocess.run([exe], stdin=f, stdout=subprocess.PIPE, stderr=subprocess.PIPE, text=True, timeout=3000)
    ans = p.stdout.splitlines()
    return p.returncode, ans, p.stderr[-2000:], round(time.time() - t, 1)


def ask_model_each(exe, config, cases):
    """Slow path: one model process per chunk of queries, so that answers stay aligned with queries
    whatever a single line does to the driver."""
    out = []
    CH = 200
    for i in range(0, len(cases), CH):
        chunk = cases[i:i + CH]
        p = subprocess.run([exe], input=config + "\n" + "".join(c.query.replace("\n", " ") + "\n" for c in chunk),
                           stdout=subprocess.PIPE, stderr=subprocess.PIPE, text=True, timeout=600)
        a = p.stdout.splitlines()[1:]
        if len(a) != len(chunk):
            a = (a + ["model-no-answer"] * len(chunk))[:len(chunk)]
        out.extend(a)
    return out


_NUM = re.compile(r"\d+")


def _sig(text):
    return _NUM.sub("N", re.sub(r"\[[^\]]*\]", "[..]", text))[:160]


def _family(query):
    w = query.split()
    if not w:
        return "?"
    if w[0] == "L":
        return "L-" + w[1]
    if w[0] == "dst":
        return "dst-" + w[1]
    if w[0] == "builder":
        return "builder-" + w[1]
    if w[0] == "pair" and len(w) > 1:
        return "pair-" + w[1]
    return w[0]


def _failing_input_desc(query):
    w = query.split()
    try:
        if w[0] == "sized":
            return f"value (size {w[3]}, align {w[4]}) with per-value metadata (size {w[1]}, align {w[2]})"
        if w[0] == "dst":
            return f"{w[1]} header (size {w[2]}, align {w[3]}) element (size {w[4]}, align {w[5]}) length {w[6]}"
        if w[0] == "builder":
            return (f"{w[1]} builder ({w[2]}) header (size {w[3]}, align {w[4]}{', destructor' if w[8] == '1' else ''}) "
                    f"element (size {w[5]}, align {w[6]}{', destructor' if w[9] == '1' else ''}) n={w[7]} action {' '.join(w[10:])}")
        if w[0] == "pair":
            return f"release history `{w[1]}` of " + _failing_input_desc(" ".join(w[2:]))
        if w[0] == "tag":
            return f"header word for colour {w[2]} needs_trace {w[3]} live {w[4]}"
    except IndexError:
        pass
    return query


def _is_nontrivial(c):
    a = c.answer or ""
    return not (a == "none" or a.startswith("no-") or a == "bad-query")


def analyse(prop, tier, seed, config, cases, crashes, global_mon, model_ans, timings, ignore_diffs=False):
    problems = []
    groups = collections.OrderedDict()   # signature -> dict(kind, cases)
    n_monitor_cases = 0
    n_disagree = 0
    fam = collections.Counter()
    fam_none = collections.Counter()
    distinct = set()
    actions = collections.Counter()
    for c, m in zip(cases, model_ans):
        f = _family(c.query)
        fam[f] += 1
        if _is_nontrivial(c):
            distinct.add(c.query)
        else:
            fam_none[f] += 1
        if f.startswith("builder-"):
            w = c.query.split()
            actions[f"{w[1]}:{w[10]}"] += 1
        if c.monitors:
            n_monitor_cases += 1
            sig = "monitor|" + f + "|" + _sig(c.monitors[0])
            g = groups.setdefault(sig, dict(kind="monitor", cases=[]))
            g["cases"].append((c, m))
        elif c.answer != m or not c.ended:
            n_disagree += 1
            if ignore_diffs and c.ended:
                continue
            sig = "diff|" + f + "|" + _sig(f"{c.answer} / {m}")
            if sig not in groups and sum(1 for s in groups if s.startswith("diff|" + f)) >= 2:
                sig = "diff|" + f + "|other"
            g = groups.setdefault(sig, dict(kind="diff", cases=[]))
            g["cases"].append((c, m))
    # monitor groups first, then disagreements; biggest first inside each class
    ordered = sorted(groups.items(), key=lambda kv: (kv[1]["kind"] != "monitor", "process died" in kv[0], -len(kv[1]["cases"])))
    for k, (sig, g) in enumerate(ordered[:MAX_PROBLEMS]):
        cs, seen_q = [], set()
        for cm in sorted(g["cases"], key=lambda cm: (len(cm[0].query), cm[0].query)):
            if cm[0].query not in seen_q:      # a fault sequence repeats queries on one arena
                seen_q.add(cm[0].query)
                cs.append(cm)
            if len(cs) >= MAX_LINES:
                break
        c0, m0 = cs[0]
        famname = _family(c0.query)
        if g["kind"] == "monitor":
            text = (f"{prop} monitor fired on the implementation for {_failing_input_desc(c0.query)}: {c0.monitors[0]} "
                    f"[{len(g['cases'])} case(s) with this signature]")
        else:
            text = (f"{prop} correspondence: model and implementation disagree on `{c0.query}`: impl `{c0.answer}` vs model `{m0}` "
                    f"[{len(g['cases'])} case(s) with this signature, no implementation monitor fired]")
        header = [text, f"harness: {HARNESS} (gc-arena from {REPO}); tier={tier} seed={seed}",
                  "the body lists the model `config` line and the failing query lines "
                  "(sized <meta size> <meta align> <value size> <value align> | dst <kind> <hdr size> <hdr align> <elem size> <elem align> <len> | builder …)",
                  f"replay: python3 -c \"import sys; sys.path.insert(0,'{ROOT}/lib'); import eng_layout, json; print(json.dumps(eng_layout.replay('{prop}', '<this file>'), indent=1))\""]
        lines = [config or "config ?"]
        for c, m in cs:
            header.append(f"  {c.query}")
            header.append(f"      impl : {c.answer}")
            header.append(f"      model: {m}")
            for mm in (c.monitors or [])[:4]:
                header.append(f"      MONITOR: {mm}")
            lines.append(c.query)
        w0 = c0.query.split()
        act = ("-" + "-".join(w0[10:12])) if w0 and w0[0] == "builder" and len(w0) > 10 else ""
        name = re.sub(r"[^A-Za-z0-9]+", "-", f"layout-{g['kind']}-{famname}{act}-{k}").strip("-")
        problems.append(dict(name=name, text=text, failing_input=(g["kind"] == "monitor"), header=header, lines=lines,
                             key=re.sub(r"[^A-Za-z0-9]+", "-", sig)[:80].strip("-").lower()))
    if len(ordered) > MAX_PROBLEMS:
        rest = sum(len(g["cases"]) for _, g in ordered[MAX_PROBLEMS:])
        problems[-1]["header"].append(f"({len(ordered) - MAX_PROBLEMS} further problem groups with {rest} cases not written out)")
    for m in global_mon:
        problems.append(dict(name="layout-header-probe", text=f"{prop}: {m}", failing_input=False, header=[m], lines=[config or ""]))
    for c, rc, err in crashes:
        if c is None:
            problems.append(dict(name="layout-harness-died", text=f"{prop}: the layout harness died outside any case (exit {rc}): {err.strip()[-300:]}",
                                 failing_input=False, header=[err.strip()[-1500:]], lines=[]))
    samples = []
    seenf = set()
    for c, m in zip(cases, model_ans):
        f = _family(c.query)
        if f not in seenf and _is_nontrivial(c) and not f.startswith("L-"):
            seenf.add(f)
            samples.append(dict(query=c.query, implementation=c.answer, model=m))
    rule = ("a case is one query line = (family, every size / alignment / length / flag / action parameter); non-trivial when the "
            "implementation actually allocated or computed a layout (answer is not `none`); counted distinct by the full query line")
    summary = {
        f"layout_{prop}": dict(
            config=config, tier=tier, seed=seed, cases=len(cases), by_family=dict(fam), answered_none_by_family=dict(fam_none),
            monitor_cases=n_monitor_cases, disagreements=n_disagree, harness_crashes=len(crashes),
            builder_kind_action=dict(actions) if actions else None, timings_s=timings)
    }
    return dict(problems=problems, evaluations=len(cases), distinct_nontrivial=len(distinct), rule=rule, samples=samples[:6],
                programs=0, disagreements_checked=len(model_ans), summary=summary)


# ---------------------------------------------------------------------------------------------
# coverage guard (fail closed): every `AllocMeta` impl and every allocation entry point of the
# crate must be known to this engine and exercised by a harness case family
# ---------------------------------------------------------------------------------------------
# implementor -> harness case families that allocate THROUGH its `layout()` (None: cannot be named
# outside the crate; the guard checks that this is still so)
KNOWN_ALLOCMETA = {
    "SliceWithHeaderPtrMeta": ("dst-swh", "dst-swh-direct"),
    "SlicePtrMeta": ("dst-slice-direct",),
    "StrPtrMeta": ("dst-str-direct",),
    "UnitPtrMeta": ("sized",),
    "StaticPtrMeta": None,
}
# (file, fn) -> number of definitions: the public functions that lead to `GcPtr::alloc`
KNOWN_ENTRY_DEFS = {
    ("gc.rs", "new_with_type_and_ptr_meta"): 1,   # direct cases (`…-direct`, custom metadata cases)
    ("gc.rs", "new_with_type_meta"): 1,           # `sized` cases via ViaTm / GcBuilder::new
    ("slice.rs", "new_with_type_meta"): 3,        # swh / slice / str builders via ViaTm / ::new
}
KNOWN_ALLOC_CALLERS = {("gc.rs", "new_with_type_and_ptr_meta")}                       # call GcPtr::alloc
KNOWN_ENTRY_CALLERS = {("gc.rs", "new_with_type_meta"), ("slice.rs", "new_with_type_meta")}  # call the above


def _skip_generics(text, i):
    """text[i] == '<': index just after the matching '>' ('->' is not a bracket)."""
    depth = 0
    while i < len(text):
        ch = text[i]
        if ch == "<":
            depth += 1
        elif ch == ">" and text[i - 1] != "-":
            depth -= 1
            if depth == 0:
                return i + 1
        i += 1
    return i


def scan_allocmeta_impls(src_dir):
    """[(file, line, implementor)] of every `impl … AllocMeta<…> for X` (the trait implemented, not a bound)."""
    found = []
    for dirpath, _, files in os.walk(src_dir):
        for fn in sorted(files):
            if not fn.endswith(".rs"):
                continue
            text = open(os.path.join(dirpath, fn), errors="replace").read()
            text_nc = re.sub(r"//[^\n]*", lambda m: " " * len(m.group(0)), text)
            for m in re.finditer(r"\bimpl\b", text_nc):
                i = m.end()
                while i < len(text_nc) and text_nc[i].isspace():
                    i += 1
                if i < len(text_nc) and text_nc[i] == "<":
                    i = _skip_generics(text_nc, i)
                m2 = re.match(r"\s*(?:[A-Za-z_][\w]*\s*::\s*)*AllocMeta\s*<", text_nc[i:])
                if not m2:
                    continue
                j = _skip_generics(text_nc, i + m2.end() - 1)
                m3 = re.match(r"\s*for\s+((?:[A-Za-z_]\w*\s*::\s*)*)([A-Za-z_]\w*)", text_nc[j:])
                if m3:
                    found.append((os.path.relpath(os.path.join(dirpath, fn), src_dir), text_nc.count("\n", 0, m.start()) + 1, m3.group(2)))
    return found


def _enclosing_fn(lines, k):
    for j in range(k, -1, -1):
        m = re.search(r"\bfn\s+([A-Za-z_]\w*)", lines[j])
        if m:
            return m.group(1)
    return "?"


def coverage_guard(prop, fam_nontrivial):
    """Problems (failing_input False) for anything allocating that this engine does not know."""
    src = os.path.join(REPO, "src")
    problems = []
    info = {}

    def prob(name, text, lines):
        problems.append(dict(name=re.sub(r"[^A-Za-z0-9]+", "-", name), text=f"{prop}: {text}", failing_input=False,
                             header=[text, "coverage guard of lib/eng_layout.py (KNOWN_ALLOCMETA / KNOWN_ENTRY_*): teach the harness "
                                     "(harness_layout/src/c17.rs, a case family allocating through the new impl / entry point) and this table"],
                             lines=lines))
    try:
        impls = scan_allocmeta_impls(src)
    except OSError as e:
        prob("layout-guard-unreadable", f"cannot scan {src}: {e!r}", [])
        return problems, info
    info["allocmeta_impls"] = [f"{f}:{l} {n}" for f, l, n in impls]
    if not impls:
        prob("layout-guard-no-impls", f"no `impl AllocMeta` found under {src}: the scan no longer understands the source", [])
    for f, l, name in impls:
        if name not in KNOWN_ALLOCMETA:
            prob(f"layout-uncovered-allocmeta-{name}", f"uncovered AllocMeta impl `{name}` ({f}:{l}): no harness case family allocates through its layout()", [f"{f}:{l} impl AllocMeta for {name}"])
        elif KNOWN_ALLOCMETA[name] is None:
            # must still be unnameable from outside: not re-exported, module private
            lib = open(os.path.join(src, "lib.rs"), errors="replace").read()
            mod = os.path.splitext(os.path.basename(f))[0]
            exported = re.search(r"\bpub\s+use\b[^;]*\b" + re.escape(name) + r"\b", lib, re.S) or re.search(r"\bpub\s+mod\s+" + re.escape(mod) + r"\b", lib)
            if exported:
                prob(f"layout-uncovered-allocmeta-{name}", f"uncovered AllocMeta impl `{name}` ({f}:{l}) has become nameable outside the crate; the harness has no case family for it", [f"{f}:{l} impl AllocMeta for {name}"])
        else:
            fams = KNOWN_ALLOCMETA[name]
            missing = [x for x in fams if not fam_nontrivial.get(x)]
            if missing:
                prob(f"layout-unexercised-allocmeta-{name}", f"AllocMeta impl `{name}` ({f}:{l}): the harness ran no successful case of famil{'y' if len(missing) == 1 else 'ies'} {missing}", [f"{f}:{l} impl AllocMeta for {name}"])
    # allocation entry points
    defs = collections.Counter()
    alloc_callers, entry_callers = set(), set()
    for dirpath, _, files in os.walk(src):
        for fn in sorted(files):
            if not fn.endswith(".rs"):
                continue
            rel = os.path.relpath(os.path.join(dirpath, fn), src)
            lines = [re.sub(r"//.*", "", x) for x in open(os.path.join(dirpath, fn), errors="replace").read().splitlines()]
            for k, line in enumerate(lines):
                m = re.search(r"\bpub\s+(?:unsafe\s+)?fn\s+(new_with_type\w*)", line)
                if m:
                    defs[(rel, m.group(1))] += 1
                    continue
                if re.search(r"\bGcPtr\s*::\s*(?:<[^;]*?>\s*::\s*)?alloc\b", line):
                    alloc_callers.add((rel, _enclosing_fn(lines, k)))
                if re.search(r"\bnew_with_type_and_ptr_meta\b", line):
                    entry_callers.add((rel, _enclosing_fn(lines, k)))
    info["entry_defs"] = {f"{a}:{b}": n for (a, b), n in sorted(defs.items())}
    for key, n in sorted(defs.items()):
        if KNOWN_ENTRY_DEFS.get(key) != n:
            prob(f"layout-uncovered-entry-{key[1]}", f"uncovered allocation entry point: {n} definition(s) of `{key[1]}` in {key[0]} (known: {KNOWN_ENTRY_DEFS.get(key, 0)})", [f"{key[0]} fn {key[1]} x{n}"])
    for key in sorted(alloc_callers - KNOWN_ALLOC_CALLERS):
        prob(f"layout-uncovered-entry-{key[1]}", f"uncovered allocation entry point: `{key[1]}` in {key[0]} calls GcPtr::alloc", [f"{key[0]} fn {key[1]}"])
    for key in sorted(entry_callers - KNOWN_ENTRY_CALLERS - KNOWN_ALLOC_CALLERS):
        prob(f"layout-uncovered-entry-{key[1]}", f"uncovered allocation entry point: `{key[1]}` in {key[0]} calls new_with_type_and_ptr_meta", [f"{key[0]} fn {key[1]}"])
    return problems, info


def _go(prop, tier, seed, only=None, tag="run"):
    if prop not in ("C17", "C18", "C11", "C03", "C04"):
        return dict(problems=[dict(name="layout-bad-prop", text=f"eng_layout does not handle {prop}", failing_input=False, header=[], lines=[])])
    timings = {}
    okh, outh, hexe, timings["build_harness"] = build_harness()
    okm, outm, mexe, timings["build_model"] = build_model()
    problems = []
    if not okh:
        problems.append(_build_problem("layout-harness-build", f"{prop}: the layout harness does not build against {REPO}'s working tree", outh))
    if not okm:
        problems.append(_build_problem("layout-model-build", f"{prop}: `lake build layoutmodel` failed in {LEAN}", outm))
    if problems:
        return dict(problems=problems, evaluations=0, distinct_nontrivial=0, disagreements_checked=0,
                    summary={f"layout_{prop}": dict(timings_s=timings, built=False)})
    config, cases, crashes, global_mon, timings["harness"] = run_harness(hexe, prop, tier, seed, only=only, tag=tag)
    if config is None or (not cases and not only):
        return dict(problems=[dict(name="layout-harness-silent", text=f"{prop}: the layout harness produced no cases",
                                   failing_input=False, header=[repr(crashes)[:1500]], lines=[])],
                    evaluations=0, distinct_nontrivial=0, disagreements_checked=0)
    rc, ans, err, timings["model"] = ask_model(mexe, config, cases)
    extra = []
    if ans and ans[0] != "config ok":
        # the header probe of the harness gave something that is not the layout of a Rust type (a
        # change to the crate disturbed the probe allocations): fall back to "GcHeader = two
        # words", so that every case is still compared and every monitor result still reported
        w = (config or "").split()
        try:
            word = int(w[4])
            fallback = f"config {w[1]} {2 * word} {word} {word}"
        except (IndexError, ValueError):
            fallback = None
        extra.append(dict(name="layout-header-probe-rejected",
                          text=f"{prop}: the model rejected the harness's `{config}` (observed GcHeader layout is not a type layout); comparing against `{fallback}` instead",
                          failing_input=False, header=[config or "", fallback or ""], lines=[config or ""]))
        if fallback:
            config = fallback
            rc, ans, err, timings["model"] = ask_model(mexe, config, cases)
    if rc != 0 or not ans or ans[0] != "config ok":
        first = ans[0] if ans else ""
        extra.append(dict(name="layout-model-protocol",
                          text=f"{prop}: layoutmodel did not accept the configuration (exit {rc}, first line `{first}`): {err[-300:]}; only the implementation-side monitors are reported",
                          failing_input=False, header=[config or ""], lines=[]))
        ans = ["config ?"] + ["model-unavailable"] * len(cases)
    if len(ans) != len(cases) + 1:
        extra.append(dict(name="layout-model-misaligned",
                          text=f"{prop}: layoutmodel gave {len(ans) - 1} answers for {len(cases)} queries; re-asking query by query",
                          failing_input=False, header=[], lines=[]))
        ans = ["config ok"] + ask_model_each(mexe, config, cases)
    t = time.time()
    ignore_diffs = False
    if prop == "C03":
        # C03 judges one clause on these cases — "no value is destructed and no allocation is
        # released while a callback is running" (monitor lines `C03: …`, and a harness killed in
        # a case); what else the builders do is C18's / C11's business
        ignore_diffs = True
        for c in cases:
            if c.monitors:
                c.monitors = [x for x in c.monitors if x.startswith("C03:") or "process died" in x] or None
    res = analyse(prop, tier, seed, config, cases, crashes, global_mon, ans[1:], timings, ignore_diffs=ignore_diffs)
    timings["compare"] = round(time.time() - t, 1)
    res["problems"] = res["problems"] + extra
    if prop == "C17" and not only:
        fam_ok = collections.Counter()
        for c in cases:
            if _is_nontrivial(c) and c.ended:
                fam_ok[_family(c.query)] += 1
        gp, ginfo = coverage_guard(prop, fam_ok)
        res["problems"] = res["problems"] + gp
        for v in res["summary"].values():
            v["coverage_guard"] = dict(ginfo, problems=len(gp))
    return res


def run(prop, tier, seed):
    return _go(prop, "thorough" if tier == "thorough" else "quick", int(seed))


def replay(prop, path):
    """Re-run only the query lines of a replay file (any tier's grid is searched for them)."""
    tier, seed = "thorough", 1
    try:
        m = re.search(r"tier=(\w+) seed=(\d+)", open(path).read())
        if m:
            tier, seed = m.group(1), int(m.group(2))
    except OSError:
        pass
    res = _go(prop, tier, seed, only=path, tag="replay")
    if not res.get("evaluations") and tier != "thorough":
        res = _go(prop, "thorough", seed, only=path, tag="replay")
    return res


if __name__ == "__main__":
    import json
    import sys
    a = sys.argv[1:]
    if len(a) >= 2 and a[0] == "replay":
        r = replay(a[1], a[2])
    else:
        r = run(a[0] if a else "C17", a[1] if len(a) > 1 else "quick", int(a[2]) if len(a) > 2 else 1)
    print(json.dumps(r, indent=1)[:6000])
    print("problems:", len(r["problems"]))
