"""
eng_collect — engine for C15 (derive(Collect)) and the DYNAMIC half of C16 (provided Collect impls).

    run(prop, tier, seed) -> dict          (contract: lib/vstatic.py)

C15  1. builds /verif/harness_collect against the CURRENT working tree of the repository (the derive
        crate is a path dependency of it, so macro changes are picked up); its build.rs generates, from
        `seed`, N random `#[derive(Collect)]` shape groups (gen/shapes.rs);
     2. builds the Lean model driver `derivemodel` (lean/DeriveMain.lean over GcArena.Model.Derive —
        the model the theorems of GcArena.Props.C15 are about);
     3. runs every generated case (a value with a DISTINCT Gc / GcWeak in every pointer position,
        observed by a recording `Trace` implementation through `Trace::trace`), pipes the same
        shape+value description to the model and diffs NEEDS_TRACE and the reported multiset;
        independently of the model, the pointers INSERTED (read off the value description) must equal
        the pointers REPORTED;
     4. compiles the rejection probes one by one with rustc against the built rlibs: every listed
        misuse must fail with the expected message class (and the model must predict that class),
        every twin must compile.
C16  builds the same harness and runs its container grid (`gcverif-collect c16`): every provided impl
     x parameter position x {Gc, GcWeak} x sizes x element position + survival runs; thorough: also each
     optional feature alone and --no-default-features.

A pointer inserted but not reported, a wrong strong/weak kind, a wrong NEEDS_TRACE or an accepted
misuse is reported with failing_input=True and the shape / container case as the replay body; a pure
model / implementation disagreement with failing_input=False.

The repository path is a parameter (`run(..., repo=...)` or $VERIF_COLLECT_REPO, default /repo): for
another path the harness sources are copied to work/collect_harness_<tag>/ with the dependency path
rewritten (used to validate the engine on mutated copies of the repository).
"""
import concurrent.futures
import hashlib
import json
import os
import re
import shutil
import subprocess
import time

ROOT = os.path.dirname(os.path.dirname(os.path.abspath(__file__)))
LEAN = os.environ.get("VERIF_COLLECT_LEAN") or os.path.join(ROOT, "lean")  # override: development only
HARNESS = os.path.join(ROOT, "harness_collect")
WORK = os.path.join(ROOT, "work")
DEFAULT_REPO = "/repo"

ENV = dict(os.environ)
ENV.update({"CARGO_NET_OFFLINE": "true", "GOPROXY": "off", "PIP_NO_INDEX": "1"})

TIERS = {
    # groups of declarations per seed, number of seeds, feature matrix for C16
    "quick": dict(groups=60, seeds=1, matrix=False),
    "thorough": dict(groups=350, seeds=2, matrix=True),
}

OPTIONAL = ["enum-map", "hashbrown", "indexmap", "slotmap", "smallvec"]


def _sh(cmd, cwd=None, env=None, timeout=3000, stdin=None):
    p = subprocess.run(cmd, cwd=cwd, env=env or ENV, input=stdin, stdout=subprocess.PIPE,
                       stderr=subprocess.STDOUT, timeout=timeout, text=True, errors="replace")
    return p.returncode, p.stdout


def _problem(name, text, failing_input, header=None, lines=None, key=None):
    d = dict(name=re.sub(r"[^A-Za-z0-9_.-]+", "_", name)[:80], text=text, failing_input=bool(failing_input),
             header=list(header or [text]), lines=list(lines or []))
    if key:
        d["key"] = key
    return d


# --------------------------------------------------------------------------------------------
# harness build
# --------------------------------------------------------------------------------------------
def _harness_dir(repo):
    """The crate to build: /verif/harness_collect itself for /repo, a rewritten copy otherwise."""
    repo = os.path.abspath(repo)
    if repo == DEFAULT_REPO:
        hdir = HARNESS
    else:
        tag = hashlib.sha1(repo.encode()).hexdigest()[:10]
        hdir = os.path.join(WORK, f"collect_harness_{tag}")
        os.makedirs(hdir, exist_ok=True)
        for rel in ["Cargo.toml", "build.rs", ".cargo/config.toml", "gen/shapes.rs", "gen/tuples.rs",
                    "src/main.rs", "src/rec.rs", "src/c16.rs"]:
            src = os.path.join(HARNESS, rel)
            dst = os.path.join(hdir, rel)
            os.makedirs(os.path.dirname(dst), exist_ok=True)
            text = open(src).read()
            if rel == "Cargo.toml":
                text = text.replace('path = "/repo"', f'path = "{repo}"')
            if not os.path.exists(dst) or open(dst).read() != text:
                open(dst, "w").write(text)
    lock = os.path.join(hdir, "Cargo.lock")
    if not os.path.exists(lock) and os.path.exists(os.path.join(repo, "Cargo.lock")):
        shutil.copy(os.path.join(repo, "Cargo.lock"), lock)
    return hdir


def _cargo_build(hdir, seed, groups, features=None):
    """-> (ok, log, exe, rlib, deps_dir). `features`: None = default (everything), else a list
    used with --no-default-features."""
    env = dict(ENV)
    env["SHAPES_SEED"] = str(seed)
    env["SHAPES_N"] = str(groups)
    cmd = ["cargo", "build", "--offline", "--message-format=json-render-diagnostics"]
    if features is not None:
        cmd += ["--no-default-features"]
        if features:
            cmd += ["--features", ",".join(features)]
    try:
        rc, out = _sh(cmd, cwd=hdir, env=env, timeout=3000)
    except subprocess.TimeoutExpired:
        return False, "cargo build timed out", None, None, None
    exe = rlib = None
    human = []
    for line in out.splitlines():
        if line.startswith("{"):
            try:
                m = json.loads(line)
            except ValueError:
                human.append(line)
                continue
            if m.get("reason") == "compiler-artifact":
                tgt = m.get("target", {})
                if tgt.get("name") == "gc_arena":
                    for f in m.get("filenames", []):
                        if f.endswith(".rlib"):
                            rlib = f
                if m.get("executable") and tgt.get("name") == "gcverif-collect":
                    exe = m["executable"]
            elif m.get("reason") == "compiler-message":
                r = m.get("message", {}).get("rendered")
                if r and m["message"].get("level") == "error":
                    human.append(r)
        else:
            human.append(line)
    ok = rc == 0 and exe is not None and os.path.exists(exe)
    deps = os.path.dirname(rlib) if rlib else None
    return ok, "\n".join(human), exe, rlib, deps


# --------------------------------------------------------------------------------------------
# Lean model driver
# --------------------------------------------------------------------------------------------
def _build_model():
    """-> (cmd list or None, log)."""
    rc, out = _sh(["lake", "build", "derivemodel"], cwd=LEAN, timeout=3000)
    exe = os.path.join(LEAN, ".lake", "build", "bin", "derivemodel")
    if rc == 0 and os.path.exists(exe):
        return [exe], out
    # the lean_exe stanza may be missing from lakefile.toml: interpret the driver instead
    rc2, out2 = _sh(["lake", "build", "GcArena.Model.Derive"], cwd=LEAN, timeout=3000)
    if rc2 == 0 and os.path.exists(os.path.join(LEAN, "DeriveMain.lean")):
        return ["lake", "env", "lean", "--run", "DeriveMain.lean"], out + "\n[fallback: interpreted driver]\n" + out2
    return None, out + "\n" + out2


def _ask_model(model_cmd, queries):
    rc, out = _sh(model_cmd, cwd=LEAN, stdin="\n".join(queries) + "\n", timeout=1800)
    lines = [l for l in out.splitlines() if l.strip()]
    return rc, lines


# --------------------------------------------------------------------------------------------
# C15: shapes
# --------------------------------------------------------------------------------------------
PTR_RE = re.compile(r"\((g|w) (\d+)\)")


def _inserted(val):
    """The multiset of pointers the value description holds (every (g id) / (w id))."""
    items = sorted((int(i), k == "w") for k, i in PTR_RE.findall(val))
    return "[" + ",".join(f"{i}:{'w' if w else 's'}" for i, w in items) + "]"


def _parse_case_line(line):
    parts = line.split(" | ")
    if len(parts) != 4 or not parts[0].startswith("case "):
        return None
    name = parts[0].split()[1]
    m = re.match(r"needs_trace=(true|false) reported=(\S+) direct=(\S+) unknown=(\d+)$", parts[3].strip())
    if not m:
        return None
    return dict(name=name, ty=parts[1], val=parts[2], needs=m.group(1), reported=m.group(2),
                direct=m.group(3), unknown=int(m.group(4)))


def _parse_nt_line(line):
    parts = line.split(" | ")
    if len(parts) != 3 or not parts[0].startswith("ntcase "):
        return None
    m = re.match(r"needs_trace=(true|false)$", parts[2].strip())
    return dict(name=parts[0].split()[1], ty=parts[1], needs=m.group(1)) if m else None


def _parse_surv_line(line):
    m = re.match(r"surv (\S+) observed:(\d+) destructed:(\d+) tokens:(\d+) tokens_dropped:(\d+) garbage:(true|false)$", line.strip())
    if not m:
        return None
    return dict(name=m.group(1), observed=int(m.group(2)), destructed=int(m.group(3)), tokens=int(m.group(4)),
                tokens_dropped=int(m.group(5)), garbage=m.group(6) == "true")


def _case_source(exe, name):
    try:
        rc, out = _sh([exe, "c15-src", name], timeout=60)
        return out.rstrip("\n").splitlines()
    except Exception as e:  # pragma: no cover
        return [f"// source unavailable: {e!r}"]


def _c15_shapes(exe, model_cmd, seed, problems, res):
    rc, out = _sh([exe, "c15"], timeout=600)
    cases = [c for c in (_parse_case_line(l) for l in out.splitlines()) if c]
    ntcases = [c for c in (_parse_nt_line(l) for l in out.splitlines()) if c]
    survs = {c["name"]: c for c in (_parse_surv_line(l) for l in out.splitlines()) if c}
    if rc != 0 or not cases or "# done" not in out:
        problems.append(_problem("c15-harness-run", "the C15 shape harness did not run to completion "
                                 f"(exit {rc}): a derived impl panicked or crashed while being traced or while its value, "
                                 "stored as the arena root, went through two collection cycles",
                                 False, lines=[l[:300] for l in out.splitlines()[-12:]]))
        if not cases:
            return
    queries = [f"case {c['name']} {c['ty']} {c['val']}" for c in cases] + \
              [f"check {c['name']} {c['ty']}" for c in ntcases]
    mrc, mlines = _ask_model(model_cmd, queries)
    model = {}
    for l in mlines:
        nm, _, rest = l.partition(" ")
        model[nm] = rest
    res["evaluations"] += len(cases) + len(ntcases) + len(survs)
    nontrivial = set()
    nviol = 0
    # shapes spelled with `Self` first: a recursive node is the shape users write most often
    cases.sort(key=lambda c: (0 if (" GS" in c["ty"] or " WS" in c["ty"]) else 1))
    for c in cases:
        ins = _inserted(c["val"])
        if ins != "[]":
            nontrivial.add((c["ty"], c["val"]))
        pred = model.get(c["name"])
        res["disagreements_checked"] += 1
        why = []
        failing = False
        # (1) independent of the model: inserted vs reported
        if c["reported"] != ins or c["unknown"]:
            failing = True
            ins_set = set(ins.strip("[]").split(",")) - {""}
            rep_set = set(c["reported"].strip("[]").split(",")) - {""}
            missing = sorted(ins_set - rep_set)
            extra = sorted(rep_set - ins_set)
            swapped = [x for x in missing if (x[:-1] + ("w" if x.endswith("s") else "s")) in extra]
            if swapped:
                why.append("pointer reported with the wrong strong/weak kind: " + ",".join(swapped))
            if [x for x in missing if x not in swapped]:
                why.append("pointer inserted but NOT reported: " + ",".join(x for x in missing if x not in swapped))
            if [x for x in extra if (x[:-1] + ("w" if x.endswith("s") else "s")) not in missing]:
                why.append("pointer reported that the value does not hold: " + ",".join(extra))
            if c["unknown"]:
                why.append(f"{c['unknown']} reported pointer(s) unknown to the test")
            if not why:
                why.append(f"reported multiset {c['reported']} differs from inserted {ins}")
        if c["needs"] == "false" and ins != "[]":
            failing = True
            why.append("NEEDS_TRACE is false although the value holds arena pointers")
        sv = survs.get(c["name"])
        if sv is not None:
            res["disagreements_checked"] += 1
            if sv["destructed"] or sv["tokens_dropped"]:
                failing = True
                why.append(f"end-to-end: with the value as the arena root, {sv['destructed']} of {sv['observed']} allocations "
                           f"reachable through strong pointers and {sv['tokens_dropped']} of {sv['tokens']} drop tokens of "
                           "reachable nodes were destructed by two finish_cycle()s")
            elif not sv["garbage"]:
                why.append("survival run vacuous: an unreferenced allocation was not collected by two finish_cycle()s")
        # (2) against the model
        if pred is None:
            why.append("the model gave no answer for this case")
        else:
            m = re.match(r"needs_trace=(true|false) reported=(\S+) direct=(\S+)$", pred)
            if not m:
                why.append(f"model and implementation disagree: the model answers `{pred}` for a shape that compiles")
            else:
                if m.group(1) != c["needs"]:
                    failing = True
                    why.append(f"wrong NEEDS_TRACE: implementation {c['needs']}, derive algorithm (model) {m.group(1)}")
                if m.group(2) != c["reported"] and c["reported"] == ins:
                    why.append(f"model predicts reported={m.group(2)} but the implementation (correctly) reports {ins}")
                if m.group(3) != c["direct"]:
                    if c["direct"] != ins and c["needs"] == "true":
                        failing = True
                        why.append(f"Collect::trace called directly reports {c['direct']}, inserted {ins}")
                    else:
                        why.append(f"model predicts direct={m.group(3)}, implementation {c['direct']}")
        if why:
            nviol += 1
            if nviol <= 10:
                src = _case_source(exe, c["name"])
                header = [f"C15 shape differential, seed {seed}, case {c['name']}"] + why + [
                    f"inserted  {ins}", f"reported  {c['reported']}  (through Trace::trace)",
                    f"direct    {c['direct']}  (Collect::trace)", f"NEEDS_TRACE {c['needs']}",
                    f"model     {pred}",
                    f"survival  {sv}",
                    "model query: " + f"case {c['name']} {c['ty']} {c['val']}",
                    "the body is the complete Rust snippet: declarations + the expression that builds the value",
                    "(`p.g(id)` / `p.w(id)` allocate the distinct Gc / GcWeak with that id; see harness_collect/src/rec.rs)"]
                cat = ("not-reported" if "NOT reported" in why[0] else "wrong-kind" if "wrong strong/weak" in why[0]
                       else "needs-trace" if "NEEDS_TRACE" in why[0] else "extra" if "does not hold" in why[0]
                       else "freed-while-reachable" if "end-to-end" in why[0] else "model")
                problems.append(_problem(f"shape-{c['name']}", "derive(Collect) shape " + c["name"] + ": " + why[0],
                                         failing, header=header, lines=src, key=f"derive-shape-{cat}"))
    nnt = 0
    for c in ntcases:
        # types of which safe code cannot build a finite value (a struct with a bare `Gc<'gc, Self>`
        # field): only the NEEDS_TRACE constant is compared with the model
        res["disagreements_checked"] += 1
        nontrivial.add((c["ty"], "-"))
        pred = model.get(c["name"], "")
        m = re.match(r"ok needs_trace=(true|false)$", pred)
        if not m or m.group(1) != c["needs"]:
            nviol += 1
            nnt += 1
            if nnt <= 2:
                failing = bool(m)
                text = (f"wrong NEEDS_TRACE: implementation {c['needs']}, derive algorithm (model) {m.group(1)}" if m
                        else f"model and implementation disagree: the model answers `{pred}` for a shape that compiles")
                header = [f"C15 shape differential, seed {seed}, case {c['name']} (NEEDS_TRACE constant only)", text,
                          f"NEEDS_TRACE {c['needs']}", f"model     {pred}", f"model query: check {c['name']} {c['ty']}"]
                problems.append(_problem(f"shape-{c['name']}", "derive(Collect) shape " + c["name"] + ": " + text, failing,
                                         header=header, lines=_case_source(exe, c["name"]),
                                         key="derive-shape-needs-trace" if m else "derive-shape-model"))
    listed = min(nviol - nnt, 10) + min(nnt, 2)
    if nviol > listed:
        problems.append(_problem("shape-more", f"{nviol - listed} further shape cases disagree (not listed)", False))
    res["_nontrivial"] |= nontrivial
    for c in cases[:3]:
        res["samples"].append(dict(case=c["name"], ty=c["ty"][:300], val=c["val"][:200], needs_trace=c["needs"],
                                   reported=c["reported"], model=model.get(c["name"])))
    rc, stats = _sh([exe, "c15-stats"], timeout=60)
    st = {}
    for l in stats.splitlines():
        k, _, v = l.rpartition(" ")
        if k and v.isdigit():
            st[k] = int(v)
    res["summary"].setdefault("shape_stats", {})[f"seed{seed}"] = st


# --------------------------------------------------------------------------------------------
# C15: rejection probes
# --------------------------------------------------------------------------------------------
CLASS_RE = {
    "missing_mode": r"proc-macro derive panicked[\s\S]*requires a `#\[collect\(\.\.\.\)\]` attribute",
    "multiple_lifetimes": r"proc-macro derive panicked[\s\S]*multiple lifetime parameters",
    "multiple_modes": r"multiple modes specified",
    "duplicate_attr": r"Cannot specify multiple `#\[collect\]` attributes",
    "unknown_option": r"unknown option",
    "multiple_bounds": r"multiple bounds specified",
    "multiple_gc_lifetimes": r"multiple `'gc` lifetimes specified",
    "field_attr": r"Only `#\[collect\(require_static\)\]` is supported on a field",
    "variant_attr": r"`#\[collect\]` is not supported on enum variants",
    "drop_conflict": r"E0119[\s\S]*__MustNotImplDrop",
    "not_static": r"lifetime may not live long enough|does not live long enough|E0310|E0477|E0521|must outlive `'static`",
    "not_collect": r"E0277[\s\S]*Collect",
    "bound_unsatisfied": r"E0277[\s\S]*Collect",
    "undeclared_lifetime": r"E0261",
}

PRE = "#![allow(dead_code, unused)]\nuse gc_arena::{Collect, Gc, GcWeak};\nuse std::marker::PhantomData;\n"
NOTCOLLECT = "struct NotCollect;\n"
NOSTATIC = "struct NoCollectImpl<'a>(&'a bool);\n"


def _d(kind, attrs, nlt, ntp, drop, variants, args=""):
    """Model description of `(A (D …) args)`."""
    return f"(A (D {kind} ({attrs}) {nlt} {ntp} {'drop' if drop else 'nodrop'} {variants}){(' ' + args) if args else ''})"


def _probe_list():
    """(name, expected class or 'ok', rust source, model type description, twin-of or None)."""
    P = []

    def add(name, cls, src, desc, twin=None):
        P.append(dict(name=name, cls=cls, src=PRE + src, desc=desc, twin=twin))

    S1 = "(V named () (F () L))"
    # ---- mode
    add("missing_mode_no_attr", "missing_mode", "#[derive(Collect)]\nstruct S { a: u8 }\n", _d("struct", "", 0, 0, 0, S1))
    add("missing_mode_no_attr.twin", "ok", "#[derive(Collect)]\n#[collect(no_drop)]\nstruct S { a: u8 }\n",
        _d("struct", "(no_drop)", 0, 0, 0, S1), "missing_mode_no_attr")
    add("missing_mode_only_bound", "missing_mode", "#[derive(Collect)]\n#[collect(bound = \"\")]\nstruct S { a: u8 }\n",
        _d("struct", "((bound))", 0, 0, 0, S1))
    add("missing_mode_only_bound.twin", "ok", "#[derive(Collect)]\n#[collect(no_drop, bound = \"\")]\nstruct S { a: u8 }\n",
        _d("struct", "(no_drop (bound))", 0, 0, 0, S1), "missing_mode_only_bound")
    add("missing_mode_empty_attr", "missing_mode", "#[derive(Collect)]\n#[collect()]\nstruct S { a: u8 }\n",
        _d("struct", "()", 0, 0, 0, S1))
    add("multiple_modes", "multiple_modes", "#[derive(Collect)]\n#[collect(no_drop, unsafe_drop)]\nstruct S { a: u8 }\n",
        _d("struct", "(no_drop unsafe_drop)", 0, 0, 0, S1))
    add("multiple_modes.twin", "ok", "#[derive(Collect)]\n#[collect(unsafe_drop)]\nstruct S { a: u8 }\n",
        _d("struct", "(unsafe_drop)", 0, 0, 0, S1), "multiple_modes")
    add("same_mode_twice", "multiple_modes", "#[derive(Collect)]\n#[collect(no_drop, no_drop)]\nstruct S { a: u8 }\n",
        _d("struct", "(no_drop no_drop)", 0, 0, 0, S1))
    add("mode_require_static_and_no_drop", "multiple_modes",
        "#[derive(Collect)]\n#[collect(require_static, no_drop)]\nstruct S { a: u8 }\n",
        _d("struct", "(require_static no_drop)", 0, 0, 0, S1))
    # ---- #[collect] attribute count
    add("duplicate_attr", "duplicate_attr", "#[derive(Collect)]\n#[collect(no_drop)]\n#[collect(no_drop)]\nstruct S { a: u8 }\n",
        _d("struct", "(no_drop) (no_drop)", 0, 0, 0, S1))
    add("duplicate_attr_split", "duplicate_attr",
        "#[derive(Collect)]\n#[collect(no_drop)]\n#[collect(bound = \"\")]\nstruct S { a: u8 }\n",
        _d("struct", "(no_drop) ((bound))", 0, 0, 0, S1))
    add("duplicate_attr_split.twin", "ok", "#[derive(Collect)]\n#[collect(no_drop, bound = \"\")]\nstruct S { a: u8 }\n",
        _d("struct", "(no_drop (bound))", 0, 0, 0, S1), "duplicate_attr_split")
    # ---- options
    add("unknown_option", "unknown_option", "#[derive(Collect)]\n#[collect(frobnicate)]\nstruct S { a: u8 }\n",
        _d("struct", "(unknown)", 0, 0, 0, S1))
    add("unknown_option_after_mode", "multiple_modes", "#[derive(Collect)]\n#[collect(no_drop, frobnicate)]\nstruct S { a: u8 }\n",
        _d("struct", "(no_drop unknown)", 0, 0, 0, S1))
    add("unknown_option_before_mode", "unknown_option", "#[derive(Collect)]\n#[collect(frobnicate, no_drop)]\nstruct S { a: u8 }\n",
        _d("struct", "(unknown no_drop)", 0, 0, 0, S1))
    add("multiple_bounds", "multiple_bounds",
        "#[derive(Collect)]\n#[collect(no_drop, bound = \"\", bound = \"\")]\nstruct S { a: u8 }\n",
        _d("struct", "(no_drop (bound) (bound))", 0, 0, 0, S1))
    add("multiple_bounds.twin", "ok", "#[derive(Collect)]\n#[collect(no_drop, bound = \"\")]\nstruct S { a: u8 }\n",
        _d("struct", "(no_drop (bound))", 0, 0, 0, S1), "multiple_bounds")
    G1 = "(V tuple () (F () G))"
    add("multiple_gc_lifetimes", "multiple_gc_lifetimes",
        "#[derive(Collect)]\n#[collect(no_drop, gc_lifetime = 'gc, gc_lifetime = 'gc)]\nstruct S<'gc>(Gc<'gc, u8>);\n",
        _d("struct", "(no_drop (gc_lifetime 0) (gc_lifetime 0))", 1, 0, 0, G1))
    add("multiple_gc_lifetimes.twin", "ok",
        "#[derive(Collect)]\n#[collect(no_drop, gc_lifetime = 'gc)]\nstruct S<'gc>(Gc<'gc, u8>);\n",
        _d("struct", "(no_drop (gc_lifetime 0))", 1, 0, 0, G1), "multiple_gc_lifetimes")
    # ---- field attributes
    add("field_attr_invalid", "field_attr", "#[derive(Collect)]\n#[collect(no_drop)]\nstruct S {\n    #[collect(invalid_arg)] field: u8\n}\n",
        _d("struct", "(no_drop)", 0, 0, 0, "(V named () (F ((unknown)) L))"))
    add("field_attr_invalid.twin", "ok", "#[derive(Collect)]\n#[collect(no_drop)]\nstruct S {\n    #[collect(require_static)] field: u8\n}\n",
        _d("struct", "(no_drop)", 0, 0, 0, "(V named () (F ((require_static)) L))"), "field_attr_invalid")
    add("field_attr_mode", "field_attr", "#[derive(Collect)]\n#[collect(no_drop)]\nstruct S {\n    #[collect(no_drop)] field: u8\n}\n",
        _d("struct", "(no_drop)", 0, 0, 0, "(V named () (F ((no_drop)) L))"))
    add("field_attr_two_options", "field_attr",
        "#[derive(Collect)]\n#[collect(no_drop)]\nstruct S {\n    #[collect(require_static, require_static)] field: u8\n}\n",
        _d("struct", "(no_drop)", 0, 0, 0, "(V named () (F ((require_static require_static)) L))"))
    add("field_attr_bound", "field_attr",
        "#[derive(Collect)]\n#[collect(no_drop)]\nstruct S(u8, #[collect(bound = \"\")] u8);\n",
        _d("struct", "(no_drop)", 0, 0, 0, "(V tuple () (F () L) (F (((bound))) L))"))
    add("field_attr_duplicate", "duplicate_attr",
        "#[derive(Collect)]\n#[collect(no_drop)]\nstruct S {\n    #[collect(require_static)]\n    #[collect(require_static)]\n    field: bool\n}\n",
        _d("struct", "(no_drop)", 0, 0, 0, "(V named () (F ((require_static) (require_static)) L))"))
    add("field_attr_in_last_variant", "field_attr",
        "#[derive(Collect)]\n#[collect(no_drop)]\nenum E { A(u8), B { x: u8, #[collect(bogus)] y: u8 } }\n",
        _d("enum", "(no_drop)", 0, 0, 0, "(V tuple () (F () L)) (V named () (F () L) (F ((unknown)) L))"))
    add("field_attr_in_last_variant.twin", "ok",
        "#[derive(Collect)]\n#[collect(no_drop)]\nenum E { A(u8), B { x: u8, #[collect(require_static)] y: u8 } }\n",
        _d("enum", "(no_drop)", 0, 0, 0, "(V tuple () (F () L)) (V named () (F () L) (F ((require_static)) L))"),
        "field_attr_in_last_variant")
    # ---- enum variants
    add("variant_attr", "variant_attr",
        "#[derive(Collect)]\n#[collect(no_drop)]\nenum E {\n    #[collect(require_static)]\n    First { field: u8 }\n}\n",
        _d("enum", "(no_drop)", 0, 0, 0, "(V named ((require_static)) (F () L))"))
    add("variant_attr.twin", "ok",
        "#[derive(Collect)]\n#[collect(no_drop)]\nenum E {\n    First { #[collect(require_static)] field: u8 }\n}\n",
        _d("enum", "(no_drop)", 0, 0, 0, "(V named () (F ((require_static)) L))"), "variant_attr")
    add("variant_attr_later_variant", "variant_attr",
        "#[derive(Collect)]\n#[collect(unsafe_drop)]\nenum E { A, B(u8), #[collect(require_static)] C(u8) }\n",
        _d("enum", "(unsafe_drop)", 0, 0, 0, "(V unit ()) (V tuple () (F () L)) (V tuple ((require_static)) (F () L))"))
    # ---- lifetimes
    L2 = "(V tuple () (F () G) (F () L))"
    add("multiple_lifetimes", "multiple_lifetimes",
        "#[derive(Collect)]\n#[collect(no_drop)]\nstruct S<'gc, 'a>(Gc<'gc, u8>, PhantomData<&'a ()>);\n",
        _d("struct", "(no_drop)", 2, 0, 0, L2))
    add("multiple_lifetimes.twin", "ok",
        "#[derive(Collect)]\n#[collect(no_drop, gc_lifetime = 'gc)]\nstruct S<'gc, 'a>(Gc<'gc, u8>, PhantomData<&'a ()>);\n",
        _d("struct", "(no_drop (gc_lifetime 0))", 2, 0, 0, L2), "multiple_lifetimes")
    add("three_lifetimes", "multiple_lifetimes",
        "#[derive(Collect)]\n#[collect(unsafe_drop)]\nenum E<'gc, 'a, 'b> { A(Gc<'gc, u8>), B(PhantomData<(&'a (), &'b ())>) }\n",
        _d("enum", "(unsafe_drop)", 3, 0, 0, "(V tuple () (F () G)) (V tuple () (F () L))"))
    add("undeclared_gc_lifetime", "undeclared_lifetime",
        "#[derive(Collect)]\n#[collect(no_drop, gc_lifetime = 'x)]\nstruct S(u8);\n",
        _d("struct", "(no_drop (gc_lifetime 0))", 0, 0, 0, "(V tuple () (F () L))"))
    add("undeclared_gc_lifetime.twin", "ok",
        "#[derive(Collect)]\n#[collect(no_drop, gc_lifetime = 'x)]\nstruct S<'x>(PhantomData<&'x ()>);\n",
        _d("struct", "(no_drop (gc_lifetime 0))", 1, 0, 0, "(V tuple () (F () L))"), "undeclared_gc_lifetime")
    # ---- Drop
    add("no_drop_and_drop_impl", "drop_conflict",
        "#[derive(Collect)]\n#[collect(no_drop)]\nstruct Foo {}\nimpl Drop for Foo { fn drop(&mut self) {} }\n",
        _d("struct", "(no_drop)", 0, 0, 1, "(V named ())"))
    add("no_drop_and_drop_impl.twin", "ok",
        "#[derive(Collect)]\n#[collect(unsafe_drop)]\nstruct Foo {}\nimpl Drop for Foo { fn drop(&mut self) {} }\n",
        _d("struct", "(unsafe_drop)", 0, 0, 1, "(V named ())"), "no_drop_and_drop_impl")
    add("no_drop_generic_enum_drop", "drop_conflict",
        "#[derive(Collect)]\n#[collect(no_drop)]\nenum E<'gc, T> { A(T), B(Gc<'gc, u8>) }\nimpl<'gc, T> Drop for E<'gc, T> { fn drop(&mut self) {} }\n",
        _d("enum", "(no_drop)", 1, 1, 1, "(V tuple () (F () (P 0))) (V tuple () (F () G))", "L"))
    add("no_drop_generic_enum_drop.twin", "ok",
        "#[derive(Collect)]\n#[collect(no_drop)]\nenum E<'gc, T> { A(T), B(Gc<'gc, u8>) }\n",
        _d("enum", "(no_drop)", 1, 1, 0, "(V tuple () (F () (P 0))) (V tuple () (F () G))", "L"), "no_drop_generic_enum_drop")
    add("require_static_mode_with_drop.accepted", "ok",
        "#[derive(Collect)]\n#[collect(require_static)]\nstruct Foo(u8);\nimpl Drop for Foo { fn drop(&mut self) {} }\n",
        _d("struct", "(require_static)", 0, 0, 1, "(V tuple () (F () L))"))
    # ---- 'static
    USE_A = "fn use_it<'a>() { let _ = <S<'a> as Collect>::NEEDS_TRACE; }\n"
    add("require_static_not_static", "not_static",
        NOSTATIC + "#[derive(Collect)]\n#[collect(no_drop)]\nstruct S<'a> {\n    #[collect(require_static)]\n    field: NoCollectImpl<'a>\n}\n" + USE_A,
        _d("struct", "(no_drop)", 1, 0, 0, "(V named () (F ((require_static)) ON))"))
    add("require_static_not_static.twin", "ok",
        NOTCOLLECT + "#[derive(Collect)]\n#[collect(no_drop)]\nstruct S<'a> {\n    #[collect(require_static)]\n    field: NotCollect,\n    g: Gc<'a, u8>\n}\n" + USE_A,
        _d("struct", "(no_drop)", 1, 0, 0, "(V named () (F ((require_static)) OS) (F () G))"), "require_static_not_static")
    add("require_static_on_gc_field", "not_static",
        "#[derive(Collect)]\n#[collect(no_drop)]\nstruct S<'a> {\n    #[collect(require_static)]\n    f: Gc<'a, u8>\n}\n" + USE_A,
        _d("struct", "(no_drop)", 1, 0, 0, "(V named () (F ((require_static)) G))"))
    add("require_static_on_gc_field.twin", "ok",
        "#[derive(Collect)]\n#[collect(no_drop)]\nstruct S<'a> {\n    f: Gc<'a, u8>\n}\n" + USE_A,
        _d("struct", "(no_drop)", 1, 0, 0, "(V named () (F () G))"), "require_static_on_gc_field")
    add("require_static_on_param_instantiated_with_gc", "not_static",
        "#[derive(Collect)]\n#[collect(no_drop)]\nstruct S<T> {\n    #[collect(require_static)]\n    f: T\n}\nfn use_it<'a>() { let _ = <S<Gc<'a, u8>> as Collect>::NEEDS_TRACE; }\n",
        _d("struct", "(no_drop)", 0, 1, 0, "(V named () (F ((require_static)) (P 0)))", "G"))
    add("require_static_on_param_instantiated_with_gc.twin", "ok",
        "#[derive(Collect)]\n#[collect(no_drop)]\nstruct S<T> {\n    #[collect(require_static)]\n    f: T\n}\nfn use_it<'a>() { let _ = <S<u8> as Collect>::NEEDS_TRACE; }\n",
        _d("struct", "(no_drop)", 0, 1, 0, "(V named () (F ((require_static)) (P 0)))", "L"),
        "require_static_on_param_instantiated_with_gc")
    add("require_static_last_field_of_last_variant", "not_static",
        "#[derive(Collect)]\n#[collect(no_drop)]\nenum S<'a> { A(Gc<'a, u8>), B(u8, #[collect(require_static)] GcWeak<'a, u8>) }\n" + USE_A,
        _d("enum", "(no_drop)", 1, 0, 0, "(V tuple () (F () G)) (V tuple () (F () L) (F ((require_static)) W))"))
    add("require_static_container_of_gc", "not_static",
        "#[derive(Collect)]\n#[collect(no_drop)]\nstruct S<'a>(u8, #[collect(require_static)] Vec<Option<Gc<'a, u8>>>);\n" + USE_A,
        _d("struct", "(no_drop)", 1, 0, 0, "(V tuple () (F () L) (F ((require_static)) (C vec (C option G))))"))
    add("require_static_mode_not_static", "not_static",
        "#[derive(Collect)]\n#[collect(require_static)]\nstruct S<'a>(&'a u8);\n" + USE_A,
        _d("struct", "(require_static)", 1, 0, 0, "(V tuple () (F () ON))"))
    # type-level require_static ignores any `bound = …` override: the impl is still `where Self: 'static`
    add("require_static_mode_with_bound_not_static", "not_static",
        "#[derive(Collect)]\n#[collect(require_static, bound = \"\")]\nstruct S<'a>(Gc<'a, u8>);\n" + USE_A,
        _d("struct", "(require_static (bound))", 1, 0, 0, "(V tuple () (F () G))"))
    add("require_static_mode_with_bound_not_static.twin", "ok",
        "#[derive(Collect)]\n#[collect(require_static, bound = \"\")]\nstruct S(u8);\nfn use_it() { let _ = <S as Collect>::NEEDS_TRACE; }\n",
        _d("struct", "(require_static (bound))", 0, 0, 0, "(V tuple () (F () L))"), "require_static_mode_with_bound_not_static")
    add("require_static_mode_with_where_bound_param_gc", "not_static",
        "#[derive(Collect)]\n#[collect(require_static, bound = \"where T: Collect<'gc>\")]\nstruct S<T>(T);\nfn use_it<'a>() { let _ = <S<Gc<'a, u8>> as Collect>::NEEDS_TRACE; }\n",
        _d("struct", "(require_static (bound 0))", 0, 1, 0, "(V tuple () (F () (P 0)))", "G"))
    add("require_static_field_with_bound_override_not_static", "not_static",
        "#[derive(Collect)]\n#[collect(no_drop, bound = \"\")]\nstruct S<'a>(u8, #[collect(require_static)] Gc<'a, u8>);\n" + USE_A,
        _d("struct", "(no_drop (bound))", 1, 0, 0, "(V tuple () (F () L) (F ((require_static)) G))"))
    add("require_static_mode_not_static.twin", "ok",
        NOTCOLLECT + "#[derive(Collect)]\n#[collect(require_static)]\nstruct S(&'static u8, NotCollect);\nfn use_it() { let _ = <S as Collect>::NEEDS_TRACE; }\n",
        _d("struct", "(require_static)", 0, 0, 0, "(V tuple () (F () L) (F () OS))"), "require_static_mode_not_static")
    # ---- Collect bounds
    add("bad_collect_bound", "not_collect",
        NOTCOLLECT + "#[derive(Collect)]\n#[collect(no_drop)]\nstruct S {\n    field: NotCollect\n}\n",
        _d("struct", "(no_drop)", 0, 0, 0, "(V named () (F () OS))"))
    add("bad_collect_bound.twin", "ok",
        NOTCOLLECT + "#[derive(Collect)]\n#[collect(no_drop)]\nstruct S {\n    #[collect(require_static)] field: NotCollect\n}\n",
        _d("struct", "(no_drop)", 0, 0, 0, "(V named () (F ((require_static)) OS))"), "bad_collect_bound")
    add("not_collect_last_tuple_field", "not_collect",
        NOTCOLLECT + "#[derive(Collect)]\n#[collect(no_drop)]\nstruct S<'gc>(Gc<'gc, u8>, u8, NotCollect);\n",
        _d("struct", "(no_drop)", 1, 0, 0, "(V tuple () (F () G) (F () L) (F () OS))"))
    add("not_collect_last_tuple_field.twin", "ok",
        NOTCOLLECT + "#[derive(Collect)]\n#[collect(no_drop)]\nstruct S<'gc>(Gc<'gc, u8>, u8, #[collect(require_static)] NotCollect);\n",
        _d("struct", "(no_drop)", 1, 0, 0, "(V tuple () (F () G) (F () L) (F ((require_static)) OS))"),
        "not_collect_last_tuple_field")
    add("not_collect_later_variant", "not_collect",
        NOTCOLLECT + "#[derive(Collect)]\n#[collect(no_drop)]\nenum E<'gc> { A(Gc<'gc, u8>), B { x: u8 }, C(NotCollect) }\n",
        _d("enum", "(no_drop)", 1, 0, 0, "(V tuple () (F () G)) (V named () (F () L)) (V tuple () (F () OS))"))
    add("not_collect_inside_container", "not_collect",
        NOTCOLLECT + "#[derive(Collect)]\n#[collect(unsafe_drop)]\nstruct S { v: Vec<Option<NotCollect>> }\n",
        _d("struct", "(unsafe_drop)", 0, 0, 0, "(V named () (F () (C vec (C option OS))))"))
    add("not_collect_field_named_cache", "not_collect",
        NOTCOLLECT + "#[derive(Collect)]\n#[collect(no_drop)]\nstruct S<'gc> { next: Gc<'gc, u8>, cache: NotCollect }\n",
        _d("struct", "(no_drop)", 1, 0, 0, "(V named () (F () G) (F () OS))"))
    add("bound_unsatisfied_at_use", "bound_unsatisfied",
        NOTCOLLECT + "#[derive(Collect)]\n#[collect(no_drop)]\nstruct S<T>(T);\nfn use_it() { let _ = <S<NotCollect> as Collect>::NEEDS_TRACE; }\n",
        _d("struct", "(no_drop)", 0, 1, 0, "(V tuple () (F () (P 0)))", "OS"))
    add("bound_unsatisfied_at_use.twin", "ok",
        "#[derive(Collect)]\n#[collect(no_drop)]\nstruct S<T>(T);\nfn use_it() { let _ = <S<u8> as Collect>::NEEDS_TRACE; }\n",
        _d("struct", "(no_drop)", 0, 1, 0, "(V tuple () (F () (P 0)))", "L"), "bound_unsatisfied_at_use")
    add("bound_override_empty_with_param_field", "not_collect",
        "#[derive(Collect)]\n#[collect(no_drop, bound = \"\")]\nstruct S<T>(T);\n",
        _d("struct", "(no_drop (bound))", 0, 1, 0, "(V tuple () (F () (P 0)))", "L"))
    add("bound_override_empty_with_param_field.twin", "ok",
        "#[derive(Collect)]\n#[collect(no_drop, bound = \"where T: Collect<'gc>\")]\nstruct S<T>(T);\nfn use_it() { let _ = <S<u8> as Collect>::NEEDS_TRACE; }\n",
        _d("struct", "(no_drop (bound 0))", 0, 1, 0, "(V tuple () (F () (P 0)))", "L"), "bound_override_empty_with_param_field")
    add("bound_override_noncollect_static_param.accepted", "ok",
        NOTCOLLECT + "#[derive(Collect)]\n#[collect(no_drop, bound = \"where T: Collect<'gc>\")]\nstruct S<T, U>(T, #[collect(require_static)] U);\nfn use_it<'a>() { let _ = <S<Gc<'a, u8>, NotCollect> as Collect>::NEEDS_TRACE; }\n",
        _d("struct", "(no_drop (bound 0))", 0, 2, 0, "(V tuple () (F () (P 0)) (F ((require_static)) (P 1)))", "G OS"))
    # ---- what the macro does NOT reject (documented behaviour, model agrees): in type-level
    # require_static mode neither field nor variant attributes are inspected
    add("require_static_mode_ignores_field_attr.accepted", "ok",
        "#[derive(Collect)]\n#[collect(require_static)]\nstruct S { #[collect(bogus)] a: u8 }\n",
        _d("struct", "(require_static)", 0, 0, 0, "(V named () (F ((unknown)) L))"))
    add("require_static_mode_ignores_variant_attr.accepted", "ok",
        "#[derive(Collect)]\n#[collect(require_static)]\nenum E { #[collect(require_static)] A(u8) }\n",
        _d("enum", "(require_static)", 0, 0, 0, "(V tuple ((require_static)) (F () L))"))
    add("require_static_mode_two_lifetimes.accepted", "ok",
        "#[derive(Collect)]\n#[collect(require_static)]\nstruct S<'a, 'b>(&'a u8, &'b u8);\nfn use_it() { let _ = <S<'static, 'static> as Collect>::NEEDS_TRACE; }\n",
        _d("struct", "(require_static)", 0, 0, 0, "(V tuple () (F () L) (F () L))"))
    return P


def _run_probe(p, pdir, rlib, deps):
    path = os.path.join(pdir, p["name"].replace(".", "_") + ".rs")
    open(path, "w").write(p["src"])
    cmd = ["rustc", "--edition", "2024", "--crate-type", "lib", "--crate-name", "probe", "--emit=metadata",
           "-o", path[:-3] + ".rmeta", "--extern", f"gc_arena={rlib}", "-L", f"dependency={deps}", path]
    try:
        rc, out = _sh(cmd, timeout=300)
    except subprocess.TimeoutExpired:
        rc, out = -1, "rustc timed out"
    return p["name"], rc, out


def _c15_probes(rlib, deps, model_cmd, problems, res):
    probes = _probe_list()
    pdir = os.path.join(WORK, "collect_probes")
    os.makedirs(pdir, exist_ok=True)
    with concurrent.futures.ThreadPoolExecutor(max_workers=min(8, os.cpu_count() or 4)) as ex:
        results = {n: (rc, out) for n, rc, out in ex.map(lambda p: _run_probe(p, pdir, rlib, deps), probes)}
    mrc, mlines = _ask_model(model_cmd, [f"check {p['name']} {p['desc']}" for p in probes])
    model = {}
    for l in mlines:
        nm, _, rest = l.partition(" ")
        model[nm] = rest
    table = []
    for p in probes:
        rc, out = results[p["name"]]
        res["evaluations"] += 1
        res["programs"] += 1
        res["disagreements_checked"] += 1
        pred = model.get(p["name"], "")
        pm = re.match(r"reject:(\w+)", pred)
        pred_cls = pm.group(1) if pm else ("ok" if pred.startswith("ok") else "?" + pred)
        compiled = rc == 0
        errs = [l for l in out.splitlines() if l.startswith("error")]
        body = p["src"].splitlines()
        hdr = [f"C15 rejection probe `{p['name']}` (expected: {p['cls']})",
               "compile: rustc --edition 2024 --crate-type lib --extern gc_arena=<rlib> -L dependency=<deps> probe.rs",
               f"model query: check {p['name']} {p['desc']}", f"model answer: {pred}",
               f"rustc: {'compiled' if compiled else 'failed'}"] + ["  " + e for e in errs[:6]]
        row = dict(probe=p["name"], expected=p["cls"], rustc="ok" if compiled else "error", model=pred_cls)
        if p["cls"] != "ok":
            if compiled:
                problems.append(_problem(f"probe-{p['name']}", f"misuse `{p['name']}` ({p['cls']}) is ACCEPTED by the derive: "
                                         "the program compiles", True, header=hdr, lines=body, key=f"derive-accepts-{p['name']}"))
                row["verdict"] = "ACCEPTED"
            elif not re.search(CLASS_RE[p["cls"]], out):
                problems.append(_problem(f"probe-{p['name']}", f"probe `{p['name']}` fails to compile but not with the expected "
                                         f"message class `{p['cls']}`", False, header=hdr, lines=body))
                row["verdict"] = "wrong-class"
            else:
                row["verdict"] = "rejected"
        else:
            if not compiled:
                problems.append(_problem(f"probe-{p['name']}", f"probe `{p['name']}` (a valid use"
                                         + (f", twin of `{p['twin']}`" if p["twin"] else "") + ") no longer compiles",
                                         False, header=hdr, lines=body))
                row["verdict"] = "twin-broken"
            else:
                row["verdict"] = "compiles"
                # literal deviations from the property's list of refused uses (harmless: the whole
                # type is 'static in type-level require_static mode) — listed in known_findings.txt
                kf = {"require_static_mode_ignores_variant_attr.accepted": "derive-require-static-mode-accepts-variant-attr",
                      "require_static_mode_two_lifetimes.accepted": "derive-require-static-mode-accepts-two-lifetimes"}.get(p["name"])
                if kf:
                    res.setdefault("known_hits", []).append(dict(property="C15", key=kf, what=p["src"].replace("\n", " ")))
        if pred_cls != p["cls"]:
            problems.append(_problem(f"probe-model-{p['name']}", f"the derive model predicts `{pred_cls}` for probe `{p['name']}`, "
                                     f"expected `{p['cls']}` (model / implementation disagreement)", False, header=hdr, lines=body))
            row["verdict"] += "+model-differs"
        table.append(row)
    res["summary"]["probes"] = table
    res["_nontrivial"] |= {("probe", p["name"]) for p in probes}


# --------------------------------------------------------------------------------------------
# C15: which spellings of a field type with `Self` the derive accepts, and the constant it computes
# --------------------------------------------------------------------------------------------
SELF_SPELLINGS = [
    # (name, field type, expected NEEDS_TRACE of the node | "cycle" = rustc reports E0391 on the pristine tree)
    ("gc_self", "Gc<'gc, Self>", True),
    ("gcweak_self", "GcWeak<'gc, Self>", True),
    ("option_gc_self", "Option<Gc<'gc, Self>>", True),
    ("option_gcweak_self", "Option<GcWeak<'gc, Self>>", True),
    ("vec_gc_self", "Vec<Gc<'gc, Self>>", True),
    ("array_option_gc_self", "[Option<Gc<'gc, Self>>; 2]", True),
    ("gc_reflock_self", "Gc<'gc, RefLock<Self>>", True),
    ("option_gc_reflock_self", "Option<Gc<'gc, RefLock<Self>>>", True),
    ("reflock_option_gc_self", "RefLock<Option<Gc<'gc, Self>>>", True),
    ("lock_option_gc_self", "Lock<Option<Gc<'gc, Self>>>", True),
    ("btreemap_gc_self", "BTreeMap<u8, Gc<'gc, Self>>", True),
    ("tuple_gc_self", "(u8, Gc<'gc, Self>)", True),
    ("result_gc_gcweak_self", "Result<Gc<'gc, Self>, GcWeak<'gc, Self>>", True),
    ("phantom_self", "PhantomData<Self>", False),
    ("option_box_self", "Option<Box<Self>>", "cycle"),
    ("vec_self", "Vec<Self>", "cycle"),
    ("box_self", "Box<Self>", "cycle"),
    ("option_rc_reflock_self", "Option<Rc<RefLock<Self>>>", "cycle"),
]

SELF_PROGRAM = """#![allow(dead_code, unused)]
use gc_arena::{{Collect, Gc, GcWeak, lock::{{Lock, RefLock}}}};
use std::{{collections::BTreeMap, marker::PhantomData, rc::Rc}};
struct Token;
// a recursive node with a plain and a require_static payload; the ONLY field that may need tracing is
// the link, whose type is spelled with `Self`
#[derive(Collect)]
#[collect(no_drop)]
{decl}
{check}
"""


def _c15_self_spellings(rlib, deps, problems, res):
    progs = []
    for name, ty, exp in SELF_SPELLINGS:
        for kind in ("struct", "enum"):
            if kind == "struct":
                decl = ("struct Node<'gc> {\n    value: u32,\n    #[collect(require_static)]\n    token: Token,\n"
                        f"    link: {ty},\n    marker: PhantomData<Gc<'gc, ()>>,\n}}")
            else:
                decl = ("enum Node<'gc> {\n    Nil,\n    Leaf(#[collect(require_static)] Token, u32),\n"
                        f"    Link {{ value: u32, link: {ty} }},\n    Marker(PhantomData<Gc<'gc, ()>>),\n}}")
            check = ("const _: bool = <Node<'static> as Collect>::NEEDS_TRACE;" if exp == "cycle" else
                     f"const _: () = assert!(<Node<'static> as Collect>::NEEDS_TRACE == {'true' if exp else 'false'});")
            progs.append(dict(name=f"self_{name}.{kind}", src=SELF_PROGRAM.format(decl=decl, check=check), ty=ty, exp=exp, kind=kind))
    pdir = os.path.join(WORK, "collect_probes")
    os.makedirs(pdir, exist_ok=True)
    with concurrent.futures.ThreadPoolExecutor(max_workers=min(8, os.cpu_count() or 4)) as ex:
        results = {n: (rc, out) for n, rc, out in ex.map(lambda p: _run_probe(p, pdir, rlib, deps), progs)}
    table = []
    nbad = 0
    for p in progs:
        rc, out = results[p["name"]]
        res["evaluations"] += 1
        res["programs"] += 1
        errs = [l for l in out.splitlines() if l.startswith("error")]
        if rc == 0:
            outcome = "accepted" + ("" if p["exp"] == "cycle" else f", NEEDS_TRACE == {str(p['exp']).lower()}")
        elif "E0391" in out:
            outcome = "rejected: NEEDS_TRACE const-evaluation cycle (E0391)"
        elif "E0080" in out or "assertion failed" in out or "evaluation panicked" in out:
            outcome = f"accepted, but NEEDS_TRACE != {str(p['exp']).lower()}"
        else:
            outcome = "rejected: " + (errs[0] if errs else "?")[:120]
        table.append(dict(field_type=p["ty"], in_=p["kind"], expected=("E0391 cycle" if p["exp"] == "cycle" else f"NEEDS_TRACE {p['exp']}"),
                          outcome=outcome))
        hdr = [f"C15 `Self`-spelling probe `{p['name']}`: a recursive node whose only possibly-traced field is `link: {p['ty']}`",
               "compile: rustc --edition 2024 --crate-type lib --extern gc_arena=<rlib> -L dependency=<deps> probe.rs",
               f"expected: {'rejected with E0391 on the pristine tree (by-value recursion)' if p['exp'] == 'cycle' else 'NEEDS_TRACE == ' + str(p['exp']).lower() + ' (const assertion)'}",
               f"outcome: {outcome}"] + ["  " + e for e in errs[:4]]
        if p["exp"] == "cycle":
            continue  # recorded only: accepting by-value recursion is not a listed misuse
        res["disagreements_checked"] += 1
        res["_nontrivial"].add(("self-spelling", p["name"]))
        if (outcome.startswith("accepted, but") or rc != 0):
            nbad += 1
            if nbad > 3:
                continue
        if outcome.startswith("accepted, but"):
            problems.append(_problem(f"self-spelling-{p['name']}", f"derived NEEDS_TRACE of a node whose link is spelled `{p['ty']}` is "
                                     f"{str(not p['exp']).lower()}: the constant must be true exactly when some traced field type's is "
                                     "(a pointer to Self needs tracing regardless of the pointee)", True, header=hdr,
                                     lines=p["src"].splitlines(), key=f"derive-self-spelling-{p['name']}"))
        elif rc != 0:
            problems.append(_problem(f"self-spelling-{p['name']}", f"`Self`-spelling probe `{p['name']}` (valid on the pristine tree) "
                                     f"no longer compiles: {outcome}", False, header=hdr, lines=p["src"].splitlines()))
    if nbad > 3:
        problems.append(_problem("self-spelling-more", f"{nbad - 3} further `Self`-spelling probes fail (see the evidence table)", False))
    res["summary"]["self_spellings"] = table


# --------------------------------------------------------------------------------------------
# C15: "the derive refuses a field whose type is not Collect" over every syntactic form of a field type
# --------------------------------------------------------------------------------------------
TF_PRE = """#![allow(dead_code, unused)]
use gc_arena::{Arena, Collect, Gc, GcWeak, Rootable, lock::{Lock, RefLock}};
use std::cell::{Cell, RefCell};
use std::marker::PhantomData;
use std::sync::atomic::{AtomicUsize, Ordering};
static DROPPED: AtomicUsize = AtomicUsize::new(0);
/// a garbage collected value that counts its destructor runs
#[derive(Collect)]
#[collect(require_static)]
struct Tracked(u64);
impl Drop for Tracked {
    fn drop(&mut self) {
        DROPPED.fetch_add(1, Ordering::SeqCst);
    }
}
/// `'static`, no `Collect` impl
struct NotCollect(u8);
/// holds an arena pointer, no `Collect` impl
struct Hidden<'gc>(Gc<'gc, Tracked>);
/// a derived generic wrapper / a derived holder (controls)
#[derive(Collect)]
#[collect(no_drop)]
struct Wrap<T>(T);
#[derive(Collect)]
#[collect(no_drop)]
struct Wrapped<'gc>(Gc<'gc, Tracked>);
"""
NEWT = "Gc::new(mc, Tracked(17))"
WRAP_D = "(D struct ((no_drop)) 0 1 nodrop (V tuple () (F () (P 0))))"
# (name, syn::Type form, NOT-Collect field type, model desc, Collect control type, model desc, value expression for
#  the run (None: the form hides no allocation, acceptance alone is the failing input), control value)
TYPE_FORMS = [
    ("ref_gc", "Reference", "&'gc Tracked", "(R n L)", "&'static Tracked", "(R s L)", f"{NEWT}.as_ref()", None),
    ("ref_mut_gc", "Reference(mut)", "&'gc mut Gc<'gc, Tracked>", "(R n G)", "&'static u8", "(R s L)",
     f"Box::leak(Box::new({NEWT}))", None),
    ("ref_static_notcollect_referent", "Reference", "&'gc NotCollect", "(R n OS)", "&'static NotCollect", "(R s OS)", None, None),
    ("tuple", "Tuple", "(u8, Hidden<'gc>)", "(C tuple L ON)", "(u8, Gc<'gc, Tracked>)", "(C tuple L G)", f"(1u8, Hidden({NEWT}))", None),
    ("array", "Array", "[Hidden<'gc>; 1]", "(C array1 ON)", "[Gc<'gc, Tracked>; 1]", "(C array1 G)", f"[Hidden({NEWT})]", None),
    ("boxed_slice", "Slice (in Box)", "Box<[Hidden<'gc>]>", "(C box (C vec ON))", "Box<[GcWeak<'gc, Tracked>]>", "(C box (C vec W))",
     f"vec![Hidden({NEWT})].into_boxed_slice()", None),
    ("ptr", "Ptr", "*const Tracked", "OS", "u8", "L", f"Gc::as_ptr({NEWT})", None),
    ("bare_fn", "BareFn", "fn(Gc<'gc, Tracked>)", "ON", "PhantomData<fn(Gc<'gc, Tracked>)>", "L", None, None),
    ("paren", "Paren", "(Hidden<'gc>)", "ON", "(Gc<'gc, Tracked>)", "G", f"Hidden({NEWT})", None),
    ("path", "Path", "Hidden<'gc>", "ON", "Wrapped<'gc>", "(A (D struct ((no_drop)) 1 0 nodrop (V tuple () (F () G))))", f"Hidden({NEWT})", None),
    ("path_box", "Path<args>", "Box<Hidden<'gc>>", "(C box ON)", "Box<GcWeak<'gc, Tracked>>", "(C box W)", f"Box::new(Hidden({NEWT}))", None),
    ("path_option_ref", "Path<args>", "Option<&'gc Tracked>", "(C option (R n L))", "Option<&'static Tracked>", "(C option (R s L))",
     f"Some({NEWT}.as_ref())", None),
    ("path_cell_gc", "Path<args>", "Cell<Gc<'gc, Tracked>>", "ON", "Lock<Gc<'gc, Tracked>>", "(C lock G)", f"Cell::new({NEWT})", None),
    ("path_refcell_gc", "Path<args>", "RefCell<Gc<'gc, Tracked>>", "ON", "RefLock<Gc<'gc, Tracked>>", "(C reflock G)", f"RefCell::new({NEWT})", None),
    ("path_vec_notcollect", "Path<args>", "Vec<NotCollect>", "(C vec OS)", "Vec<u8>", "(C vec L)", None, None),
    ("path_derived_generic", "Path<args>", "Wrap<Hidden<'gc>>", f"(A {WRAP_D} ON)", "Wrap<Gc<'gc, Tracked>>", f"(A {WRAP_D} G)",
     f"Wrap(Hidden({NEWT}))", None),
]
# the shapes the field is put in: (shape name, mode, declaration template, model variants template, constructor template)
TF_SHAPES = [
    ("named.no_drop", "no_drop", "struct S<'gc> {{ a: u8, marker: PhantomData<Gc<'gc, ()>>, f: {ty} }}",
     "struct", "(V named () (F () L) (F () L) (F () {d}))", "S {{ a: 1, marker: PhantomData, f: {v} }}"),
    ("named.unsafe_drop", "unsafe_drop", "struct S<'gc> {{ f: {ty}, a: u8, marker: PhantomData<Gc<'gc, ()>> }}",
     "struct", "(V named () (F () {d}) (F () L) (F () L))", "S {{ f: {v}, a: 1, marker: PhantomData }}"),
    ("tuple.unsafe_drop", "unsafe_drop", "struct S<'gc>(u8, PhantomData<Gc<'gc, ()>>, {ty});",
     "struct", "(V tuple () (F () L) (F () L) (F () {d}))", "S(1, PhantomData, {v})"),
    ("enum.no_drop", "no_drop", "enum S<'gc> {{ A, M(PhantomData<Gc<'gc, ()>>), B {{ a: u8, f: {ty} }}, C({ty}) }}",
     "enum", "(V unit ()) (V tuple () (F () L)) (V named () (F () L) (F () {d})) (V tuple () (F () {d}))", "S::C({v})"),
]
TF_EXTRA = [
    # a reference with a DECLARED lifetime other than the gc lifetime, and the None-delimited `Group` form that a
    # `$t:ty` macro fragment produces
    dict(name="ref_declared_lifetime.named.no_drop", form="Reference", cls="not_collect",
         decl="#[derive(Collect)]\n#[collect(no_drop, gc_lifetime = 'gc)]\nstruct S<'gc, 'a> { g: Gc<'gc, u8>, f: &'a Tracked }",
         desc="(A (D struct ((no_drop (gc_lifetime 0))) 2 0 nodrop (V named () (F () G) (F () (R n L)))))",
         root="S<'_, '_>", ctor=f"S {{ g: Gc::new(mc, 1u8), f: {NEWT}.as_ref() }}", ty="&'a Tracked"),
    dict(name="ref_declared_lifetime.named.no_drop.twin", form="Reference", cls="ok",
         decl="#[derive(Collect)]\n#[collect(no_drop, gc_lifetime = 'gc)]\nstruct S<'gc, 'a> { g: Gc<'gc, u8>, f: (&'static Tracked, PhantomData<&'a ()>) }",
         desc="(A (D struct ((no_drop (gc_lifetime 0))) 2 0 nodrop (V named () (F () G) (F () (C tuple (R s L) L)))))",
         root=None, ctor=None, ty="(&'static Tracked, PhantomData<&'a ()>)"),
    dict(name="group_ref_gc.named.no_drop", form="Group (macro `$t:ty`)", cls="not_collect",
         decl="macro_rules! mk { ($t:ty) => { #[derive(Collect)]\n#[collect(no_drop)]\nstruct S<'gc> { a: u8, marker: PhantomData<Gc<'gc, ()>>, f: $t } } }\nmk!(&'gc Tracked);",
         desc="(A (D struct ((no_drop)) 1 0 nodrop (V named () (F () L) (F () L) (F () (R n L)))))",
         root="S<'_>", ctor=f"S {{ a: 1, marker: PhantomData, f: {NEWT}.as_ref() }}", ty="&'gc Tracked (through $t:ty)"),
    dict(name="group_ref_gc.named.no_drop.twin", form="Group (macro `$t:ty`)", cls="ok",
         decl="macro_rules! mk { ($t:ty) => { #[derive(Collect)]\n#[collect(no_drop)]\nstruct S<'gc> { a: u8, marker: PhantomData<Gc<'gc, ()>>, f: $t } } }\nmk!(&'static Tracked);",
         desc="(A (D struct ((no_drop)) 1 0 nodrop (V named () (F () L) (F () L) (F () (R s L)))))",
         root=None, ctor=None, ty="&'static Tracked (through $t:ty)"),
]
TF_MAIN = """
// the value lives in the ROOT; nothing else refers to the allocation behind the field.  No pointer is
// followed after the collections: the verdict is the destructor counter alone.
fn main() {{
    let mut arena = Arena::<Rootable![{root}]>::new(|mc| {ctor});
    arena.finish_cycle();
    arena.finish_cycle();
    let dropped = DROPPED.load(Ordering::SeqCst);
    println!("destructors_run={{}}", dropped);
    std::process::exit(if dropped == 0 {{ 0 }} else {{ 3 }});
}}
"""
MODEL_CTORS = {"leaf": r"(?<![A-Za-z])L(?![A-Za-z])", "gc": r"(?<![A-Za-z])G(?![A-Za-z])", "weak": r"(?<![A-Za-z])W(?![A-Za-z])",
               "opaque": r"(?<![A-Za-z])O[SN](?![A-Za-z])", "param": r"\(P ", "ref": r"\(R ", "con": r"\(C ", "adt": r"\(A "}


def _type_form_probes():
    P = []
    for name, form, bad, dbad, good, dgood, val, _ in TYPE_FORMS:
        for shape, mode, decl, kind, variants, ctor in TF_SHAPES:
            for twin in (False, True):
                ty, d = (good, dgood) if twin else (bad, dbad)
                P.append(dict(name=f"{name}.{shape}" + (".twin" if twin else ""), form=form, cls="ok" if twin else "not_collect",
                              decl=f"#[derive(Collect)]\n#[collect({mode})]\n" + decl.format(ty=ty),
                              desc=f"(A (D {kind} (({mode})) 1 0 nodrop {variants.format(d=d)}))",
                              root=None if (twin or val is None) else "S<'_>",
                              ctor=None if (twin or val is None) else ctor.format(v=val), ty=ty))
    P += [dict(p) for p in TF_EXTRA]
    for p in P:
        p["src"] = TF_PRE + p["decl"] + "\n"
    return P


def _run_accepted(p, pdir, rlib, deps):
    """An ACCEPTED not-Collect field: build the program that keeps such a value in the arena root and run it."""
    prog = TF_PRE + p["decl"] + "\n" + TF_MAIN.format(root=p["root"], ctor=p["ctor"])
    path = os.path.join(pdir, "run_" + p["name"].replace(".", "_") + ".rs")
    exe = path[:-3]
    open(path, "w").write(prog)
    rc, out = _sh(["rustc", "--edition", "2024", "--crate-name", "probe_run", "-o", exe, "--extern", f"gc_arena={rlib}",
                   "-L", f"dependency={deps}", path], timeout=600)
    if rc != 0:
        return prog, "the run program does not compile: " + " | ".join(l for l in out.splitlines() if l.startswith("error"))[:300], None
    try:
        rc, out = _sh([exe], timeout=120)
    except subprocess.TimeoutExpired:
        return prog, "the run program timed out", None
    m = re.search(r"destructors_run=(\d+)", out)
    return prog, f"exit {rc}, {out.strip()[:200]}", (int(m.group(1)) if m else None)


def _c15_type_forms(rlib, deps, model_cmd, problems, res, other_descs):
    probes = _type_form_probes()
    pdir = os.path.join(WORK, "collect_probes")
    os.makedirs(pdir, exist_ok=True)
    with concurrent.futures.ThreadPoolExecutor(max_workers=min(8, os.cpu_count() or 4)) as ex:
        results = {n: (rc, out) for n, rc, out in ex.map(lambda p: _run_probe(p, pdir, rlib, deps), probes)}
    model = {}
    if model_cmd is not None:
        mrc, mlines = _ask_model(model_cmd, [f"check {p['name']} {p['desc']}" for p in probes])
        for l in mlines:
            nm, _, rest = l.partition(" ")
            model[nm] = rest
    table = []
    nacc = 0
    for p in probes:
        rc, out = results[p["name"]]
        res["evaluations"] += 1
        res["programs"] += 1
        res["disagreements_checked"] += 1
        res["_nontrivial"].add(("type-form", p["name"]))
        pred = model.get(p["name"], "")
        pm = re.match(r"reject:(\w+)", pred)
        pred_cls = pm.group(1) if pm else ("ok" if pred.startswith("ok") else "?" + pred)
        compiled = rc == 0
        errs = [l for l in out.splitlines() if l.startswith("error")]
        row = dict(probe=p["name"], form=p["form"], field_type=p["ty"], expected=p["cls"], rustc="ok" if compiled else "error", model=pred_cls)
        hdr = [f"C15 type-form probe `{p['name']}`: a field of syntactic form {p['form']}, type `{p['ty']}`, "
               + ("which is NOT Collect: the derive must refuse it" if p["cls"] != "ok" else "which is Collect (control twin)"),
               "compile: rustc --edition 2024 --crate-type lib --extern gc_arena=<rlib> -L dependency=<deps> probe.rs",
               f"model query: check {p['name']} {p['desc']}", f"model answer: {pred}",
               f"rustc: {'compiled' if compiled else 'failed'}"] + ["  " + e for e in errs[:4]]
        if p["cls"] != "ok":
            if compiled:
                nacc += 1
                row["verdict"] = "ACCEPTED"
                body = p["src"].splitlines()
                text = (f"a field of type `{p['ty']}` ({p['form']}), which is not Collect, is ACCEPTED by the derive in "
                        f"`{p['name']}`: it gets no NEEDS_TRACE term, no trace call and no bound")
                if p["root"] and nacc <= 4:
                    prog, how, dropped = _run_accepted(p, pdir, rlib, deps)
                    body = prog.splitlines()
                    hdr += ["run: the same declaration as arena ROOT holding a value whose field hides a live allocation, "
                            "finish_cycle() x2, destructor counter (complete program below; "
                            "rustc --edition 2024 --extern gc_arena=<rlib> -L dependency=<deps> prog.rs && ./prog)", "run result: " + how]
                    row["run"] = how
                    if dropped:
                        text += f"; run with such a value in the root: {dropped} allocation(s) destructed by two finish_cycle()s while the root still refers to them"
                if nacc <= 4:
                    problems.append(_problem(f"type-form-{p['name']}", text, True, header=hdr, lines=body,
                                             key=f"derive-accepts-not-collect-{p['name']}"))
            elif not re.search(CLASS_RE["not_collect"] + "|" + CLASS_RE["not_static"], out):
                # `FieldTy: Collect<'gc>` fails either as E0277 (no impl at all) or, when the only impl asks for
                # `'static` (`&'static T`, `Cell<T: 'static>`), as "`'gc` must outlive `'static`"
                row["verdict"] = "wrong-class"
                problems.append(_problem(f"type-form-{p['name']}", f"type-form probe `{p['name']}` fails to compile but neither with "
                                         "E0277 `…: Collect` nor with the region error of an impl that needs 'static (the probe no longer "
                                         "checks the clause)", False, header=hdr, lines=p["src"].splitlines()))
            else:
                row["verdict"] = "rejected"
        else:
            row["verdict"] = "compiles" if compiled else "twin-broken"
            if not compiled:
                problems.append(_problem(f"type-form-{p['name']}", f"control twin `{p['name']}` (field type `{p['ty']}`, Collect) no longer "
                                         "compiles", False, header=hdr, lines=p["src"].splitlines()))
        if model_cmd is not None and pred_cls != p["cls"]:
            row["verdict"] += "+model-differs"
            problems.append(_problem(f"type-form-model-{p['name']}", f"the derive model predicts `{pred_cls}` for type-form probe "
                                     f"`{p['name']}`, expected `{p['cls']}` (model / implementation disagreement)", False,
                                     header=hdr, lines=p["src"].splitlines()))
        table.append(row)
    if nacc > 4:
        problems.append(_problem("type-form-more", f"{nacc - 4} further not-Collect field forms are accepted (see the evidence table)", False))
    # census: the descriptions sent to the model (this family + the other rejection probes) exhibit every
    # constructor of the model's type language (cf. GcArena.C15.probe_corpus_covers_every_constructor)
    alld = " ".join([p["desc"] for p in probes] + list(other_descs))
    census = {k: len(re.findall(rx, alld)) for k, rx in MODEL_CTORS.items()}
    missing = [k for k, n in census.items() if n == 0]
    if missing:
        problems.append(_problem("probe-corpus-census", "the rejection-probe corpus no longer exhibits the model type constructor(s) "
                                 + ", ".join(missing), False))
    res["summary"]["type_form_probes"] = table
    res["summary"]["probe_corpus_constructor_census"] = census


# --------------------------------------------------------------------------------------------
# C16: container grid
# --------------------------------------------------------------------------------------------
C16_SNIPPET = """// replay: in /verif/harness_collect run `cargo run --offline{feat} -- c16 | grep -F '{grep}'`
// the case builds `{impl}` with a distinct {kind} pointer in parameter position {ppos}
// (size {size}, element position {epos}), traces it with the recording tracer through Trace::trace
// and compares the reported (id, strong|weak) multiset with what was inserted.
"""


def _c16_run(exe, label, featflag, problems, res):
    try:
        rc, out = _sh([exe, "c16"], timeout=900)
    except subprocess.TimeoutExpired:
        rc, out = -1, "timeout"
    lines = out.splitlines()
    summary = [l for l in lines if l.startswith("c16-summary")]
    if rc != 0 or not summary:
        problems.append(_problem(f"c16-run-{label}", f"the C16 container harness ({label}) did not run to completion (exit {rc}): "
                                 "a provided impl panicked / crashed while being traced or collected",
                                 False, lines=lines[-40:]))
        return
    per_impl = {}
    nfail = 0
    for l in lines:
        if l.startswith("c16 "):
            f = l.split()
            impl, ppos, kind, size, epos = f[1], f[2], f[3], f[4], f[5]
            res["evaluations"] += 1
            res["disagreements_checked"] += 1
            e = per_impl.setdefault(impl, dict(cases=0, fails=0))
            e["cases"] += 1
            if "inserted=[]" not in l:
                res["_nontrivial"].add((label, impl, ppos, kind, size, epos))
            if "verdict=ok" not in l:
                e["fails"] += 1
                nfail += 1
                if nfail <= 10:
                    why = l.split("verdict=", 1)[1]
                    hdr = [f"C16 container differential ({label}): {impl}, parameter position {ppos}, {kind}, size {size}, "
                           f"element position {epos}: {why}", l]
                    body = C16_SNIPPET.format(feat=featflag, grep=" ".join(f[:6]), impl=impl, kind=kind, ppos=ppos,
                                              size=size, epos=epos).splitlines() + [l]
                    problems.append(_problem(f"c16-{label}-{impl}-{ppos}-{kind}-{size}-{epos}",
                                             f"provided Collect impl `{impl}` (param {ppos}, {kind}, size {size}, elem {epos}): {why}",
                                             True, header=hdr, lines=body, key=f"collect-impl-{impl}-{ppos}"))
        elif l.startswith("c16-static "):
            res["evaluations"] += 1
            res["disagreements_checked"] += 1
            if "note=" in l:
                res["summary"].setdefault("c16_notes", []).append(f"{label}: {l}")
            if "verdict=ok" not in l:
                nfail += 1
                problems.append(_problem(f"c16-static-{label}-{l.split()[1]}", "a pointer-free value reports pointers "
                                         f"when traced: {l}", True, header=[l], lines=[l],
                                         key=f"collect-impl-static-{l.split()[1]}"))
        elif l.startswith("c16-survive "):
            res["evaluations"] += 1
            res["_nontrivial"].add((label, "survive", l.split()[1]))
            if "verdict=ok" not in l:
                nfail += 1
                problems.append(_problem(f"c16-survive-{label}-{l.split()[1]}", "end-to-end survival run failed: a pointee stored in "
                                         f"`{l.split()[1]}` inside the arena root was freed by a full collection: {l}", True,
                                         header=[l, "root = the container holding Gc<Tok>; other references dropped; finish_cycle x2; "
                                                    "drop flags of the pointees inspected (harness_collect/src/c16.rs `survival`)"],
                                         lines=[l], key=f"collect-impl-survive-{l.split()[1]}"))
    if nfail > 10:
        problems.append(_problem(f"c16-more-{label}", f"{nfail - 10} further failing container cases ({label}) not listed", False))
    res["summary"].setdefault("c16", {})[label] = dict(summary=summary[0], impls=per_impl)
    for l in [x for x in lines if x.startswith("c16 ")][:2]:
        res["samples"].append(dict(c16=l))


# --------------------------------------------------------------------------------------------
# entry point
# --------------------------------------------------------------------------------------------
def run(prop, tier, seed, repo=None):
    t0 = time.time()
    repo = repo or os.environ.get("VERIF_COLLECT_REPO") or DEFAULT_REPO
    cfg = TIERS.get(tier, TIERS["quick"])
    res = dict(problems=[], evaluations=0, distinct_nontrivial=0, programs=0, disagreements_checked=0,
               samples=[], summary={}, rule="", _nontrivial=set())
    problems = res["problems"]
    os.makedirs(WORK, exist_ok=True)
    if prop not in ("C15", "C16"):
        res.pop("_nontrivial")
        return res
    try:
        hdir = _harness_dir(repo)
    except Exception as e:
        problems.append(_problem("collect-harness-setup", f"cannot set up the collect harness for {repo}: {e!r}", False))
        res.pop("_nontrivial")
        return res
    res["summary"]["repo"] = repo

    if prop == "C15":
        res["rule"] = ("a shape case is non-trivial when its value holds at least one Gc/GcWeak (distinct (type, value) "
                       "descriptions counted); every rejection probe counts")
        model_cmd, mlog = _build_model()
        if model_cmd is None:
            problems.append(_problem("derivemodel-build", "the Lean derive model driver (lake build derivemodel) does not build",
                                     False, lines=mlog.splitlines()[-40:]))
        rlib = deps = None
        for k in range(cfg["seeds"]):
            s = int(seed) + 7919 * k
            ok, log, exe, rlib_k, deps_k = _cargo_build(hdir, s, cfg["groups"])
            if not ok:
                problems.append(_problem(f"collect-harness-build-seed{s}",
                                         f"the C15 shape harness does not build against {repo} (seed {s}): either the crate no longer "
                                         "compiles or the derive generates code that rustc rejects for a VALID shape",
                                         False, lines=log.splitlines()[-60:]))
                continue
            rlib, deps = rlib_k, deps_k
            if model_cmd is not None:
                _c15_shapes(exe, model_cmd, s, problems, res)
        if rlib and model_cmd is not None:
            _c15_probes(rlib, deps, model_cmd, problems, res)
        if rlib:
            _c15_self_spellings(rlib, deps, problems, res)
            _c15_type_forms(rlib, deps, model_cmd, problems, res, [p["desc"] for p in _probe_list()])
    else:
        res["rule"] = ("a container case is non-trivial when at least one pointer was inserted (distinct impl x parameter position "
                       "x kind x size x element position x feature set); every survival run counts")
        ok, log, exe, _, _ = _cargo_build(hdir, int(seed), 4)
        if not ok:
            problems.append(_problem("collect-harness-build", f"the C16 container harness does not build against {repo} "
                                     "(all features)", False, lines=log.splitlines()[-60:]))
        else:
            _c16_run(exe, "all-features", "", problems, res)
        if cfg["matrix"]:
            for feats in [[]] + [["std"]] + [["std", f] for f in OPTIONAL] + [[f] for f in OPTIONAL]:
                label = "features=" + (",".join(feats) if feats else "none")
                ok, log, exe, _, _ = _cargo_build(hdir, int(seed), 4, features=feats)
                if not ok:
                    problems.append(_problem(f"collect-harness-build-{label}", f"the C16 container harness does not build against "
                                             f"{repo} with --no-default-features {label}", False, lines=log.splitlines()[-60:]))
                    continue
                flag = " --no-default-features" + (f" --features {','.join(feats)}" if feats else "")
                _c16_run(exe, label, flag, problems, res)
    res["distinct_nontrivial"] = len(res.pop("_nontrivial"))
    res["summary"]["seconds"] = round(time.time() - t0, 1)
    return res


if __name__ == "__main__":  # manual use: python3 lib/eng_collect.py C15 quick 1 [repo]
    import sys

    r = run(sys.argv[1], sys.argv[2] if len(sys.argv) > 2 else "quick", int(sys.argv[3]) if len(sys.argv) > 3 else 20260925,
            repo=sys.argv[4] if len(sys.argv) > 4 else None)
    brief = dict(r)
    brief["summary"] = {k: v for k, v in r["summary"].items() if k in ("seconds", "repo")}
    brief["samples"] = brief["samples"][:2]
    print(json.dumps(brief, indent=1)[:6000])
    print("problems:", len(r["problems"]))
    for p in r["problems"]:
        print(" -", p["failing_input"], p["name"], "::", p["text"][:200])
