"""
vcheck — implementation of ./check (see DESIGN.md §2.4).

Per property the check
  1. regenerates source-derived Lean tables (translator, tie T2) where the property uses them,
  2. builds the property's Lean module and audits its theorems (`#print axioms`, forbidden-token
     grep) — obligations / discharged,
  3. builds the Rust harness against /repo's *working tree* with the verification cfg on,
  4. runs generated operation sequences through the implementation and through the Lean model's
     executable definitions (`gcmodel`), comparing every observation (tie T1), while the property
     monitors judge the implementation's trace on their own,
  5. decides: monitor fired -> shrink, replay, VIOLATION; proof or correspondence broke -> search
     for a failing input, else VIOLATION … no-failing-input-found; known finding -> KNOWN-FINDING,
  6. writes evidence/<id>.json from the measured counts.
"""
import concurrent.futures
import hashlib
import json
import os
import re
import shutil
import subprocess
import sys
import time

ROOT = os.path.dirname(os.path.dirname(os.path.abspath(__file__)))
LEAN = os.path.join(ROOT, "lean")
HARNESS = os.path.join(ROOT, "harness")
WORK = os.path.join(ROOT, "work")
REPO = "/repo"
GCMODEL = os.path.join(LEAN, ".lake", "build", "bin", "gcmodel")
ALLOWED_AXIOMS = {"propext", "Classical.choice", "Quot.sound"}
FORBIDDEN = re.compile(
    r"\b(sorry|admit|native_decide|bv_decide|implemented_by)\b|\bunsafe\s+(def|inductive|structure|instance|abbrev|opaque|theorem|example|class|axiom|mutual|partial)\b|^\s*(private |protected |@\[[^\]]*\]\s*)*axiom\b"
    r"|maxHeartbeats 0|decide \+native|@\[[^\]]*\b(extern|csimp|export)\b|attribute \[[^\]]*\b(extern|csimp|export|implemented_by)\b"
    # meta-programming that could add declarations without the kernel (none is used by the library;
    # the audit helper lean/GcArena/Audit/StmtHash.lean is exempt and pinned by hash in the lock)
    r"|skipKernelTC|\baddDecl\b|\brun_cmd\b|\brun_elab\b|\brun_meta\b|^\s*(builtin_)?initialize\b|^\s*elab(_rules)?\b|set_option\s+debug\.", re.M
)
NCPU = min(16, os.cpu_count() or 4)

ENV = dict(os.environ)
ENV.update({"CARGO_NET_OFFLINE": "true", "GOPROXY": "off", "PIP_NO_INDEX": "1"})

# --------------------------------------------------------------------------------------------
# Per-property configuration of the dynamic tie (T1).  `mode`: od = oracle-driven replay of the
# model (micro-steps of each collection call taken from the implementation's log; metrics not
# compared) / sd = self-driven (the model computes debt itself; everything compared).
# `tags`: which monitor verdicts count as a violation of this property.
# --------------------------------------------------------------------------------------------
DYNAMIC = {
    # "fault": trace panics (object or root, any position) are part of the histories C01 / C08 quantify
    # over (C11 restates them for the continued history); round 12 delivered a root-trace-fault change
    # against C01 and C08 that only the C11 check reported
    "C01": dict(profiles=["core", "weak", "barrier", "finalize", "fault"], mode="od", tags=["C01"]),
    "C02": dict(profiles=["reclaim", "weak", "core"], mode="od", tags=["C02"], release_too=True),
    "C03": dict(profiles=["core", "protocol", "weak"], mode="od", tags=["C03"]),
    "C04": dict(profiles=["core", "weak", "reclaim"], mode="od", tags=["C04"]),
    # a reachable value lost after an upgrade-and-store / a barriered adoption / a resurrection is a
    # violation of the weak / barrier / finalization property too: C01's monitor counts for them
    "C05": dict(profiles=["weak", "finalize"], mode="od", tags=["C05", "C01"]),
    "C06": dict(profiles=["barrier", "metrics", "weak"], mode="od", tags=["C06", "C01", "C05"], release_too=True),
    "C07": dict(profiles=["finalize"], mode="od", tags=["C07", "C01"]),
    "C08": dict(profiles=["protocol", "pacing", "finalize", "fault"], mode="sd", tags=["C08"]),
    "C09": dict(profiles=["pacing", "protocol", "soak"], mode="sd", tags=["C09"], extra=[("decimal", "odt")]),
    "C10": dict(profiles=["metrics", "pacing", "fault"], mode="sd", tags=["C10"], release_too=True, extra=[("decimal", "odt")]),
    "C11": dict(profiles=["fault"], mode="od", tags=["C01", "C02", "C03", "C04", "C05", "C11"]),
    "C20": dict(profiles=["multi"], mode="od", tags=["C20", "C01", "C02", "C03", "C04", "C05"]),
}

TIERS = {
    # sequences per profile, max ops per sequence, search multiplier
    "quick": dict(count=2400, maxops=70, search=3),
    "thorough": dict(count=200000, maxops=240, search=4),
}

LEVELS = {}  # property -> evidence level, filled from MANIFEST.json


def log(msg):
    print(msg, flush=True)


def run(cmd, cwd=None, timeout=3600, stdin=None):
    p = subprocess.run(
        cmd, cwd=cwd, env=ENV, stdin=stdin, stdout=subprocess.PIPE, stderr=subprocess.STDOUT,
        timeout=timeout, text=True, errors="replace",
    )
    return p.returncode, p.stdout


# --------------------------------------------------------------------------------------------
# builds
# --------------------------------------------------------------------------------------------
def build_lean(targets):
    rc, out = run(["lake", "build"] + targets, cwd=LEAN, timeout=3000)
    return rc == 0, out


def build_harness(release=False):
    lock = os.path.join(HARNESS, "Cargo.lock")
    if not os.path.exists(lock):
        shutil.copy(os.path.join(REPO, "Cargo.lock"), lock)
    cmd = ["cargo", "build", "--offline"] + (["--release"] if release else [])
    rc, out = run(cmd, cwd=HARNESS, timeout=3000)
    exe = os.path.join(HARNESS, "target", "release" if release else "debug", "gcverif-harness")
    return rc == 0 and os.path.exists(exe), out, exe


# --------------------------------------------------------------------------------------------
# Lean side: obligations of a property = the `theorem`s of GcArena/Props/<id>.lean plus the
# statements kept at full strength but not yet proved (`def <name>_statement : Prop`, for which a
# theorem `<name>` must exist to count as discharged).
# --------------------------------------------------------------------------------------------
def lean_obligations(prop):
    """Obligations of `prop`: Props/<prop>.lean plus, when present, the companion Props/<prop>s.lean
    (the static half: table theorems over source-derived tables)."""
    main = _lean_obligations_one(prop)
    if os.path.exists(os.path.join(LEAN, "GcArena", "Props", f"{prop}s.lean")):
        comp = _lean_obligations_one(prop + "s")
        if not os.path.exists(os.path.join(LEAN, "GcArena", "Props", f"{prop}.lean")):
            return _apply_lock(prop, comp)
        for k in ("obligations", "discharged"):
            main[k] += comp[k]
        for k in ("theorems", "open", "forbidden"):
            main[k] = main[k] + [x for x in comp[k] if x not in main[k]]
        main["pending_statements"] = main.get("pending_statements", []) + comp.get("pending_statements", [])
        main["build_ok"] = main["build_ok"] and comp["build_ok"]
        main["build_log"] += "\n" + comp["build_log"]
        main["module"] += " " + comp["module"]
        if main["forbidden"]:
            main["discharged"] = 0
    return _apply_lock(prop, main)


def lean_import_closure(mods):
    """The modules of this library that `mods` import, transitively (leanchecker replays only the
    declarations of the modules it is given, so the imported Model / Spec / Proofs modules are
    named explicitly)."""
    seen, todo = [], list(mods)
    while todo:
        m = todo.pop()
        if m in seen or not m.startswith("GcArena"):
            continue
        path = os.path.join(LEAN, *m.split(".")) + ".lean"
        if not os.path.exists(path):
            continue
        seen.append(m)
        todo += re.findall(r"^import\s+(GcArena[\w.]*)", open(path).read(), flags=re.M)
    return sorted(seen)


def _apply_lock(prop, res):
    """lib/obligations.lock.json lists, per property, the theorem names that make up the claim and,
    under "_stmt", a structural hash of each theorem's statement and of the definitions it rests on
    (lean/GcArena/Audit/StmtHash.lean, itself pinned under "_audit_sha256").  Everything here fails
    CLOSED: a missing or unreadable lock, a property without an entry, a locked theorem that is no
    longer there, a theorem of Props/ that is not in the lock, a missing pinned or computed hash, a
    hash that differs, or an edited audit helper is an open obligation — the property is then no
    longer shown to hold."""
    path = os.path.join(ROOT, "lib", "obligations.lock.json")
    opened = []
    try:
        full = json.load(open(path))
    except Exception as e:
        full = None
        opened.append(f"lib/obligations.lock.json is missing or unreadable ({e})")
    lock = (full or {}).get(prop)
    if full is not None and lock is None:
        opened.append(f"lib/obligations.lock.json has no entry for {prop}")
    lock = lock or []
    pinned = (full or {}).get("_stmt", {})
    have = {t["name"] for t in res.get("theorems", [])} | {o.split(" ")[0] for o in res.get("open", [])}
    for m in lock:
        if m not in have:
            opened.append(m + " (listed in obligations.lock.json, no longer present)")
    try:
        audit_sha = hashlib.sha256(open(os.path.join(LEAN, "GcArena", "Audit", "StmtHash.lean"), "rb").read()).hexdigest()
    except Exception:
        audit_sha = None
    if full is not None and full.get("_audit_sha256") != audit_sha:
        opened.append("lean/GcArena/Audit/StmtHash.lean differs from the version the lock was made with (statement pins cannot be trusted)")
    compared = 0
    for t in res.get("theorems", []):
        name, want, got = t["name"], pinned.get(t["name"]), t.get("stmt")
        why = None
        if full is not None and name not in lock:
            why = "is not listed in obligations.lock.json (added without re-locking: run lib/mklock.py)"
        elif want is None:
            why = "has no pinned statement hash in obligations.lock.json"
        elif got is None:
            why = "statement hash could not be computed on this run"
        elif str(want) != str(got):
            why = "its statement, or a definition the statement rests on, differs from the one accepted in obligations.lock.json"
        else:
            compared += 1
        if why and t.get("ok"):
            t["ok"] = False
            res["discharged"] -= 1
            opened.append(f"{name} ({why})")
    res["statements_compared"] = compared
    if opened:
        res["open"] = res.get("open", []) + opened
        # every entry of `opened` that is not one of res's own theorems is an additional obligation
        extra = [o for o in opened if o.split(" ")[0] not in {t["name"] for t in res.get("theorems", [])}]
        res["obligations"] += len(extra)
    return res


def _lean_obligations_one(prop):
    path = os.path.join(LEAN, "GcArena", "Props", f"{prop}.lean")
    res = dict(module=f"GcArena.Props.{prop}", obligations=0, discharged=0, theorems=[], open=[],
               build_ok=False, build_log="", forbidden=[])
    if not os.path.exists(path):
        res["build_log"] = "no property module"
        return res
    src = open(path).read()
    code = re.sub(r"/-.*?-/", "", src, flags=re.S)
    code = re.sub(r"--.*", "", code)
    theorems = re.findall(r"^theorem\s+([A-Za-z0-9_.']+)", code, flags=re.M)
    statements = re.findall(r"^def\s+([A-Za-z0-9_.']+)_statement\b", code, flags=re.M)
    ns = re.search(r"^namespace\s+(\S+)", code, flags=re.M)
    prefix = (ns.group(1) + ".") if ns else ""
    # forbidden tokens anywhere in the library (comments stripped)
    scan = [(dp, f) for dp, _, fs in os.walk(os.path.join(LEAN, "GcArena")) for f in fs]
    scan += [(LEAN, f) for f in os.listdir(LEAN)]          # the model drivers carry the T1 tie
    for dirpath, f in scan:
        if True:
            if f.endswith(".lean") and not dirpath.endswith(os.path.join("GcArena", "Audit")):
                t = open(os.path.join(dirpath, f)).read()
                t = re.sub(r"/-.*?-/", "", t, flags=re.S)
                t = re.sub(r"--.*", "", t)
                for m in FORBIDDEN.finditer(t):
                    res["forbidden"].append(f"{f}: {m.group(0).strip()}")
    # the regenerated tables are excluded from the statement pins, so they must be nothing but data:
    # exactly the eight table modules, no theorems / instances / functions / control flow
    gdir = os.path.join(LEAN, "GcArena", "Generated")
    allowed = {"BrandFlow.lean", "BrandTable.lean", "CallGraph.lean", "CollectTable.lean", "DerefWriteTable.lean",
               "MacroImpls.lean", "PacingConsts.lean", "SigTable.lean"}
    for f in sorted(os.listdir(gdir)) if os.path.isdir(gdir) else []:
        if f not in allowed:
            res["forbidden"].append(f"Generated/{f}: unexpected file among the regenerated tables")
            continue
        t = open(os.path.join(gdir, f)).read()
        t = re.sub(r"/-.*?-/", "", t, flags=re.S)
        t = re.sub(r"--.*", "", t)
        t = re.sub(r'"(?:[^"\\]|\\.)*"', '""', t)
        m = re.search(r"^\s*(theorem|lemma|instance|axiom|macro|syntax|notation|attribute|elab|set_option)\b|\b(fun|match|if|then|else|by)\b", t, flags=re.M)
        if m:
            res["forbidden"].append(f"Generated/{f}: `{m.group(0).strip()}` — a regenerated table must be literal data")
    ok, out = build_lean([f"GcArena.Props.{prop}", "GcArena.Audit.StmtHash"])
    res["build_ok"] = ok
    res["build_log"] = out[-4000:]
    names = list(dict.fromkeys(theorems))
    wanted = names
    # statements kept at full strength whose proof is still pending: reported, never counted as
    # discharged, and named in MANIFEST.level_note — they are not obligations of this check
    res["pending_statements"] = [prefix + s + "_statement" for s in statements if s not in names]
    res["obligations"] = len(wanted)
    if not ok:
        res["open"] = [prefix + w for w in wanted]
        return res
    # audit axioms
    os.makedirs(WORK, exist_ok=True)
    audit = os.path.join(WORK, f"Audit_{prop}.lean")
    with open(audit, "w") as f:
        f.write(f"import GcArena.Audit.StmtHash\nimport GcArena.Props.{prop}\n")
        for n in names:
            f.write(f"#print axioms {prefix}{n}\n")
        if names:
            f.write("#stmt_hash " + " ".join(prefix + n for n in names) + "\n")
    rc, out = run(["lake", "env", "lean", audit], cwd=LEAN, timeout=1200)
    blocks = re.split(r"(?=^'[^']+' )", out, flags=re.M)
    info = {}
    for b in blocks:
        m = re.match(r"'([^']+)' (does not depend on any axioms|depends on axioms: \[(.*?)\])", b, flags=re.S)
        if m:
            axs = [] if m.group(3) is None else [a.strip() for a in m.group(3).replace("\n", " ").split(",")]
            info[m.group(1)] = axs
    stmt = dict(re.findall(r"STMT (\S+) (\d+)", out))
    for n in wanted:
        full = prefix + n
        if n in names and full in info:
            axs = info[full]
            good = set(axs) <= ALLOWED_AXIOMS
            res["theorems"].append(dict(name=full, axioms=axs, ok=good, stmt=stmt.get(full)))
            if good:
                res["discharged"] += 1
            else:
                res["open"].append(full)
        else:
            res["open"].append(full)
    if res["forbidden"]:
        res["discharged"] = 0
    return res


# --------------------------------------------------------------------------------------------
# dynamic tie
# --------------------------------------------------------------------------------------------
def sub_seed(seed, profile, k):
    h = hashlib.sha256(f"{seed}/{profile}/{k}".encode()).digest()
    return int.from_bytes(h[:6], "big") | 1


def run_chunk(exe, mode, profile, seed, count, maxops, tag):
    """One worker: harness | gcmodel, streaming.  Returns dict."""
    os.makedirs(WORK, exist_ok=True)
    report = os.path.join(WORK, f"{tag}.report.json")
    status = os.path.join(WORK, f"{tag}.status")
    diffs = os.path.join(WORK, f"{tag}.diffs")
    for p in (report, status, diffs):
        if os.path.exists(p):
            os.remove(p)
    hcmd = [exe, "gen", "--profile", profile, "--seed", str(seed), "--count", str(count),
            "--maxops", str(maxops), "--out", "/dev/stdout", "--report", report, "--status", status]
    with open(diffs, "w") as dfile:
        h = subprocess.Popen(hcmd, stdout=subprocess.PIPE, stderr=subprocess.DEVNULL, env=ENV)
        m = subprocess.Popen([GCMODEL, mode], stdin=h.stdout, stdout=subprocess.PIPE, stderr=subprocess.DEVNULL, env=ENV, text=True)
        h.stdout.close()
        summary = ""
        for line in m.stdout:
            if line.startswith("summary"):
                summary = line.strip()
            elif " ok " not in line:
                dfile.write(line)
        m.wait()
        h.wait()
    res = dict(profile=profile, seed=seed, count=count, maxops=maxops, tag=tag, harness_rc=h.returncode,
               model_rc=m.returncode, summary=summary, report=None, diffs=[], crashed_at=None)
    if os.path.exists(report):
        try:
            res["report"] = json.load(open(report))
        except Exception as e:  # noqa
            res["report"] = None
    if h.returncode != 0:
        try:
            res["crashed_at"] = int(open(status).read().strip())
        except Exception:
            res["crashed_at"] = -1
    for line in open(diffs):
        m2 = re.match(r"seq (\S+) DIFF line=(\d+) section=(\S+) op=(.*?) impl=(.*?) model=(.*)$", line.strip())
        if m2:
            res["diffs"].append(dict(sequence=m2.group(1), section=m2.group(3), op=m2.group(4),
                                     impl=m2.group(5)[:400], model=m2.group(6)[:400]))
    return res


def regenerate(exe, profile, seed, count, maxops, k, path):
    """Re-generate sequence k of a chunk into a trace file (deterministic from the seed)."""
    rep = path + ".report.json"
    subprocess.run([exe, "gen", "--profile", profile, "--seed", str(seed), "--count", str(count),
                    "--maxops", str(maxops), "--only", str(k), "--out", path, "--report", rep],
                   env=ENV, stdout=subprocess.DEVNULL, stderr=subprocess.DEVNULL)
    ops = [l.rstrip("\n") for l in open(path) if l.startswith("op ")] if os.path.exists(path) else []
    return ops


def replay_ops(exe, mode, ops, tag):
    """Run an op list through implementation and model.  Returns (violations, diffs, crashed)."""
    os.makedirs(WORK, exist_ok=True)
    inp = os.path.join(WORK, f"{tag}.in.ops")
    trace = os.path.join(WORK, f"{tag}.trace")
    rep = os.path.join(WORK, f"{tag}.rep.json")
    with open(inp, "w") as f:
        f.write("seq replay\n" + "\n".join(ops) + "\n")
    for p in (trace, rep):
        if os.path.exists(p):
            os.remove(p)
    pr = subprocess.run([exe, "replay", "--in", inp, "--out", trace, "--report", rep], env=ENV,
                        stdout=subprocess.DEVNULL, stderr=subprocess.DEVNULL)
    crashed = pr.returncode != 0
    viol = []
    if os.path.exists(rep):
        try:
            viol = json.load(open(rep))["violations"]
        except Exception:
            pass
    diffs = []
    if os.path.exists(trace):
        with open(trace) as tf:
            rc, out = run([GCMODEL, mode], stdin=tf, timeout=600)
        for line in out.splitlines():
            m2 = re.match(r"seq (\S+) DIFF line=(\d+) section=(\S+) op=(.*?) impl=(.*?) model=(.*)$", line.strip())
            if m2:
                diffs.append(dict(section=m2.group(3), op=m2.group(4), impl=m2.group(5)[:400], model=m2.group(6)[:400]))
    return viol, diffs, crashed


def diff_sig(d):
    return (d["section"], " ".join(d["op"].split()[2:4]))


def shrink(exe, mode, ops, pred, tag, budget=400):
    """ddmin over the op list; `pred(viol, diffs, crashed)` says whether the failure persists."""
    cur = list(ops)
    n = 2
    runs = 0
    while len(cur) >= 2 and runs < budget:
        chunk = max(1, len(cur) // n)
        reduced = False
        i = 0
        while i < len(cur) and runs < budget:
            cand = cur[:i] + cur[i + chunk:]
            runs += 1
            if cand and pred(*replay_ops(exe, mode, cand, tag)):
                cur = cand
                n = max(n - 1, 2)
                reduced = True
            else:
                i += chunk
        if not reduced:
            if chunk == 1:
                break
            n = min(len(cur), n * 2)
    return cur


def known_findings():
    known, fixed = [], []
    path = os.path.join(ROOT, "known_findings.txt")
    if os.path.exists(path):
        for line in open(path):
            line = line.strip()
            m = re.match(r"known:\s+property=(\S+)\s+key=(\S+)\s+(.*)$", line)
            if m:
                known.append(dict(property=m.group(1), key=m.group(2), what=m.group(3)))
            m = re.match(r"fixed:\s+property=(\S+)\s+(\S+)\s+(.*)$", line)
            if m:
                fixed.append(dict(property=m.group(1), commit=m.group(2), what=m.group(3)))
    return known, fixed


def write_replay(prop, name, header, ops):
    os.makedirs(os.path.join(ROOT, "replays"), exist_ok=True)
    path = os.path.join(ROOT, "replays", f"{prop}-{name}.ops")
    with open(path, "w") as f:
        for h in header:
            f.write(f"# {h}\n")
        f.write("seq replay\n")
        for o in ops:
            f.write(o + "\n")
    return path


def run_dynamic(prop, cfg, tier, seed, exe, t0, time_budget):
    T = TIERS[tier]
    per = max(1, NCPU // max(1, len(cfg["profiles"])))
    jobs = []
    for profile in cfg["profiles"]:
        chunk = max(1, T["count"] // per)
        maxops = T["maxops"]
        if profile == "soak":      # few, long sequences: sustained allocation against paced cycles
            chunk, maxops = max(2, chunk // 25), 420
        for k in range(per):
            jobs.append((profile, sub_seed(seed, profile, k), chunk, maxops, f"{prop}.{profile}.{k}"))
    results = []
    with concurrent.futures.ThreadPoolExecutor(NCPU) as ex:
        futs = [ex.submit(run_chunk, exe, cfg["mode"], *j) for j in jobs]
        # extra (profile, mode) pairs: e.g. decimal pacing compared tolerantly (`odt`)
        xjobs = []
        for profile, mode in cfg.get("extra", []):
            chunk = max(1, T["count"] // 4 // max(1, per))
            for k in range(per):
                xjobs.append((mode, (profile, sub_seed(seed, profile, k), chunk, T["maxops"], f"{prop}.{profile}.{k}")))
        xfuts = [(m, ex.submit(run_chunk, exe, m, *j)) for m, j in xjobs]
        for f in futs:
            results.append(f.result())
        for m, f in xfuts:
            r = f.result()
            r["mode"] = m
            results.append(r)
    return results


# --------------------------------------------------------------------------------------------
# static engines register themselves here: prop -> function(tier, seed) -> dict
# --------------------------------------------------------------------------------------------
STATIC = {}
try:
    import vstatic  # noqa: E402

    STATIC = vstatic.ENGINES
except ImportError:
    pass


def load_manifest_levels():
    try:
        m = json.load(open(os.path.join(ROOT, "MANIFEST.json")))
        for c in m.get("checks", []):
            LEVELS[c["property_id"]] = c["level_claimed"]["category"]
    except Exception:
        pass


def main(argv):
    import argparse

    ap = argparse.ArgumentParser()
    ap.add_argument("prop")
    ap.add_argument("--tier", default=os.environ.get("VERIF_TIER", "quick"))
    ap.add_argument("--seed", type=int, default=int(os.environ.get("VERIF_SEED", "20260925")))
    ap.add_argument("--replay")
    args = ap.parse_args(argv)
    prop, tier, seed = args.prop, args.tier, args.seed
    if tier not in TIERS:
        tier = "quick"
    load_manifest_levels()
    os.makedirs(WORK, exist_ok=True)
    # Checks share state on disk (the regenerated tables under lean/GcArena/Generated, lake's build
    # directory, the harness target directories, work/): concurrent invocations take turns.
    import fcntl
    _lock = open(os.path.join(WORK, ".check.lock"), "w")
    fcntl.flock(_lock, fcntl.LOCK_EX)
    t0 = time.time()

    if args.replay:
        return do_replay(prop, args.replay)

    problems = []      # (kind, text, replay-able payload)
    known_hits = []
    cfg = DYNAMIC.get(prop)

    # -- 1/2: Lean obligations ---------------------------------------------------------------
    static_res = None
    if prop in STATIC:
        static_res = STATIC[prop](tier, seed)   # may regenerate Generated/*.lean before the build
    ob = lean_obligations(prop)
    lean_ok = ob["build_ok"] and not ob["forbidden"] and ob["obligations"] > 0 and ob["discharged"] == ob["obligations"]
    log(f"[lean] {ob['module']}: obligations={ob['obligations']} discharged={ob['discharged']} build_ok={ob['build_ok']}")
    # thorough tier: the toolchain's independent re-checker replays the compiled declarations of
    # the property module(s) through the kernel again
    ob["leanchecker"] = None
    if tier == "thorough" and ob["build_ok"] and shutil.which("leanchecker"):
        tlc = time.time()
        rc_lc, out_lc = run(["lake", "env", "leanchecker"] + lean_import_closure(ob["module"].split()), cwd=LEAN, timeout=3600)
        ob["leanchecker"] = dict(rc=rc_lc, seconds=round(time.time() - tlc, 1), output=out_lc[-600:])
        log(f"[lean] leanchecker {ob['module']}: rc={rc_lc} in {ob['leanchecker']['seconds']}s")
        if rc_lc != 0:
            lean_ok = False
            ob["open"] = ob["open"] + [f"leanchecker rejected {ob['module']}"]
    elif tier == "thorough" and ob["build_ok"]:
        lean_ok = False
        ob["open"] = ob["open"] + ["leanchecker is not on PATH: the thorough tier's independent kernel replay did not run"]
    if ob["forbidden"]:
        log(f"[lean] forbidden tokens: {ob['forbidden'][:5]}")
    okm, outm = build_lean(["gcmodel"])
    if not okm:
        log("[lean] gcmodel build failed:\n" + outm[-3000:])

    # -- 3/4: dynamic tie -------------------------------------------------------------------
    results = []
    exe = None
    corpus_runs, corpus_fail = [], []
    if cfg:
        okh, outh, exe = build_harness(False)
        if not okh:
            log("[harness] build failed (does /repo still compile with the hooks on?):\n" + outh[-3000:])
            problems.append(("harness-build", "the correspondence harness does not build against /repo", None))
        elif not okm:
            problems.append(("model-build", "the Lean model driver does not build", None))
        else:
            # corpus first: minimised past failures of this property
            cdir = os.path.join(ROOT, "corpus")
            for f in sorted(os.listdir(cdir)) if os.path.isdir(cdir) else []:
                if f.startswith(prop + "-") and f.endswith(".ops"):
                    cops = [l.rstrip("\n") for l in open(os.path.join(cdir, f)) if l.startswith("op ")]
                    cv, cd, cc = replay_ops(exe, cfg["mode"], cops, f"{prop}.corpus")
                    corpus_runs.append(f)
                    cv = [v for v in cv if v["property"] in cfg["tags"]]
                    if cv or cd or cc:
                        corpus_fail.append((f, cv, cd, cc))
            results = run_dynamic(prop, cfg, tier, seed, exe, t0, None)
            if cfg.get("release_too"):
                okr, outr, exer = build_harness(True)
                if okr:
                    T = TIERS[tier]
                    results += [run_chunk(exer, cfg["mode"], p, sub_seed(seed, p, 99), max(1, T["count"] // 4), T["maxops"], f"{prop}.{p}.rel") for p in cfg["profiles"]]
                    for r in results[-len(cfg["profiles"]):]:
                        r["release"] = True

    # -- 5: verdict --------------------------------------------------------------------------
    known, fixed = known_findings()
    known_keys = {(k["property"], k["key"]) for k in known}
    tags = set(cfg["tags"]) if cfg else set()
    monitor_viol, diffs, crashes = [], [], []
    agg = dict(sequences=0, ops=0, nontrivial=0, hashes=set(), skipped=0, coverage={}, samples=[])
    for r in results:
        rep = r["report"]
        if rep:
            agg["sequences"] += rep["sequences"]
            agg["ops"] += rep["ops"]
            agg["nontrivial"] += rep["nontrivial"]
            agg["hashes"].update(rep.get("hashes", []))
            agg["skipped"] += rep["skipped_ops"]
            for k, v in rep["coverage"].items():
                agg["coverage"][k] = agg["coverage"].get(k, 0) + v
            if len(agg["samples"]) < 3:
                agg["samples"] += rep["samples"][:1]
            for v in rep["violations"]:
                if v["property"] in tags:
                    if (v["property"], v.get("key", "")) in known_keys or (prop, v.get("key", "")) in known_keys:
                        known_hits.append(v)
                    else:
                        monitor_viol.append((r, v))
        for d in r["diffs"]:
            diffs.append((r, d))
        if r["crashed_at"] is not None:
            crashes.append(r)

    violation_lines = []
    replay_paths = []

    def seq_index(label):
        return int(label.rsplit("-", 1)[1])

    def ops_of(r, label):
        return regenerate(exe if not r.get("release") else exe.replace("/debug/", "/release/"), r["profile"], r["seed"], r["count"], r["maxops"], seq_index(label),
                          os.path.join(WORK, f"{prop}.regen.trace"))

    if monitor_viol:
        # group by (property tag, first words of what), shrink the first of each group
        seen = set()
        for r, v in monitor_viol:
            sig = (v["property"], re.sub(r"\d+", "N", v["what"])[:60])
            if sig in seen:
                continue
            seen.add(sig)
            if len(seen) > 3:
                break
            ops = ops_of(r, v["sequence"])
            hexe = exe if not r.get("release") else exe.replace("/debug/", "/release/")

            def pred(viol, dfs, crashed, v=v):
                return any(x["property"] == v["property"] and re.sub(r"\d+", "N", x["what"])[:40] == re.sub(r"\d+", "N", v["what"])[:40] for x in viol)

            small = shrink(hexe, r.get("mode", cfg["mode"]), ops, pred, f"{prop}.shrink") if ops else ops
            path = write_replay(prop, f"{v['sequence']}", [
                f"property {prop}: monitor {v['property']} fired on the implementation's own trace",
                f"what: {v['what']}", f"at: {v['op']} (op index {v['op_index']} of the unshrunk sequence)",
                f"generated by: profile={r['profile']} seed={r['seed']} index={seq_index(v['sequence'])} maxops={r['maxops']}",
                f"replay with: ./check {prop} --replay <this file>"], small or ops)
            replay_paths.append(path)
            violation_lines.append(f"VIOLATION property={prop} replay={path}")
            log(f"[monitor] {v['property']}: {v['what']}")
    for f, cv, cd, cc in corpus_fail:
        known_cv = [v for v in cv if (v["property"], v.get("key", "")) in known_keys]
        if cv and len(known_cv) == len(cv) and not cd and not cc:
            known_hits.extend(known_cv)
            continue
        path = os.path.join(ROOT, "corpus", f)
        why = cv[0]["what"] if cv else (f"model/implementation disagree: {cd[0]['section']} at {cd[0]['op']}" if cd else "harness died")
        log(f"[corpus] {f}: {why}")
        if cv or cc:
            violation_lines.append(f"VIOLATION property={prop} replay={path}")
            replay_paths.append(path)
    if crashes and not violation_lines:
        r = crashes[0]
        k = r["crashed_at"]
        ops = regenerate(exe, r["profile"], r["seed"], r["count"], r["maxops"], k, os.path.join(WORK, f"{prop}.crash.trace")) if k is not None and k >= 0 else []
        path = write_replay(prop, f"crash-{r['profile']}-{r['seed']}-{k}", [
            f"property {prop}: the harness process died (rc={r['harness_rc']}) while executing this sequence against the implementation",
            "a reachable value was destructed / released, memory was corrupted, or an abort was hit",
            f"generated by: profile={r['profile']} seed={r['seed']} index={k} maxops={r['maxops']}"], ops)
        replay_paths.append(path)
        violation_lines.append(f"VIOLATION property={prop} replay={path}")
    broken = []
    if diffs:
        r, d = diffs[0]
        broken.append(f"correspondence T1/{cfg['mode']} ({len(diffs)} sequences disagree; first: section={d['section']} op={d['op']} impl={d['impl'][:160]} model={d['model'][:160]})")
    if not lean_ok:
        if not ob["build_ok"]:
            broken.append(f"Lean module {ob['module']} does not build")
        elif ob["forbidden"]:
            broken.append(f"forbidden tokens in the Lean library: {ob['forbidden'][:3]}")
        elif ob["obligations"] == 0:
            broken.append("no proof obligations found for this property")
        else:
            broken.append(f"undischarged obligations: {ob['open'][:6]}")
    if static_res:
        for p_ in static_res.get("problems", []):
            if p_.get("key") and (prop, p_["key"]) in known_keys:
                known_hits.append(dict(property=prop, key=p_["key"], what=p_.get("text", "")))
                continue
            if p_.get("failing_input"):
                path = write_replay(prop, p_["name"], p_["header"], p_.get("lines", []))
                replay_paths.append(path)
                violation_lines.append(f"VIOLATION property={prop} replay={path}")
            else:
                broken.append(p_["text"])
        for kh in static_res.get("known_hits", []):
            known_hits.append(kh)
    for kind, text, _ in problems:
        broken.append(text)

    searched = 0
    for b_ in broken[:8]:
        log("[broken] " + b_[:600])
    if broken and not violation_lines:
        # search for a concrete failing input: more seeds, monitors on
        found = None
        if cfg and exe and okm:
            T = TIERS[tier]
            extra = []
            with concurrent.futures.ThreadPoolExecutor(NCPU) as ex:
                futs = []
                for k in range(NCPU):
                    profile = cfg["profiles"][k % len(cfg["profiles"])]
                    futs.append(ex.submit(run_chunk, exe, cfg["mode"], profile, sub_seed(seed + 1, profile, 1000 + k),
                                          max(1, T["count"] * T["search"] // NCPU), T["maxops"] + 40, f"{prop}.search.{k}"))
                for f in futs:
                    extra.append(f.result())
            for r in extra:
                if r["report"]:
                    searched += r["report"]["sequences"]
                    for v in r["report"]["violations"]:
                        if v["property"] in tags and (v["property"], v.get("key", "")) not in known_keys and not found:
                            found = (r, v)
        if found:
            r, v = found
            ops = ops_of(r, v["sequence"])

            def pred2(viol, dfs, crashed, v=v):
                return any(x["property"] == v["property"] for x in viol)

            small = shrink(exe, cfg["mode"], ops, pred2, f"{prop}.shrink") if ops else ops
            path = write_replay(prop, f"{v['sequence']}", [
                f"property {prop}: {broken[0]}", f"search found a failing input: monitor {v['property']}: {v['what']}",
                f"replay with: ./check {prop} --replay <this file>"], small or ops)
            violation_lines.append(f"VIOLATION property={prop} replay={path}")
            replay_paths.append(path)
        else:
            ops = []
            if diffs:
                r, d = diffs[0]
                ops = ops_of(r, d["sequence"])

                def pred3(viol, dfs, crashed, d=d):
                    return any(diff_sig(x) == diff_sig(d) for x in dfs)

                ops = shrink(exe, r.get("mode", cfg["mode"]), ops, pred3, f"{prop}.shrink", budget=200) if ops else ops
            path = write_replay(prop, "unproved", [f"property {prop} is no longer shown to hold:"] + broken + [
                f"searched {searched} further sequences with the property monitors on: no failing input found",
                "the sequence below (if any) is the shrunk sequence on which model and implementation disagree"], ops)
            replay_paths.append(path)
            violation_lines.append(f"VIOLATION property={prop} replay={path} no-failing-input-found")

    # known findings (printed, never failing)
    seen_k = set()
    for v in known_hits:
        key = (v["property"], v.get("key", ""))
        if key in seen_k:
            continue
        seen_k.add(key)
        desc = next((k["what"] for k in known if (k["property"], k["key"]) == key), v.get("what", ""))
        log(f"KNOWN-FINDING: property={v['property']} {v.get('key', '')}: {desc}")

    # -- 6: evidence -------------------------------------------------------------------------
    level = LEVELS.get(prop, "proof")
    cov_cells = agg["coverage"]
    coverage = dict(
        obligations=ob["obligations"], discharged=ob["discharged"],
        checker_cmd=f"cd lean && lake build {ob['module']} && lake env lean <(#print axioms of every theorem of Props/{prop}.lean)",
        trusted_base=["Lean 4.33.0 kernel", "axioms: " + ", ".join(sorted({a for t in ob["theorems"] for a in t["axioms"]}) or ["none"]),
                      "hand-written model GcArena/Model/* tied to /repo by the correspondence harness (T1)" if cfg else "translator extract/ (T2)",
                      "monitors and shadow graph of harness/src/shadow.rs", "rustc / std semantics"],
        theorems=[t["name"] for t in ob["theorems"]], open_statements=ob["open"],
        pending_full_strength_statements=ob.get("pending_statements", []),
        leanchecker=ob.get("leanchecker"),
        evaluations=agg["sequences"] + (static_res or {}).get("evaluations", 0),
        distinct_nontrivial=len(agg["hashes"]) + (static_res or {}).get("distinct_nontrivial", 0),
        rule=("sequences generated online from one SplitMix64 state per sequence (profiles: %s), mode %s; a sequence is non-trivial when it "
              "reached >= 2 collection phases, had >= 1 collection call that did work and >= 2 callbacks; distinct by hash of the canonical op list"
              % (",".join(cfg["profiles"]), cfg["mode"])) if cfg else (static_res or {}).get("rule", "table entries / probes"),
        samples=agg["samples"][:3] + (static_res or {}).get("samples", [])[:3] or [dict(note="no dynamic samples for this property")],
        traces_validated_against_impl=agg["sequences"], ops_compared=agg["ops"], ops_skipped=agg["skipped"],
        model_impl_disagreements=len(diffs), monitor_violations=len(monitor_viol), known_finding_hits=len(known_hits),
        harness_crashes=len(crashes), search_sequences=searched, corpus_replayed=corpus_runs,
        coverage_cells=len(cov_cells), coverage_table=dict(sorted(cov_cells.items())[:400]),
        programs=(static_res or {}).get("programs", 0), disagreements_checked=(static_res or {}).get("disagreements_checked", 0),
        static=(static_res or {}).get("summary"),
        explanation="Lean theorems about the executable model + differential correspondence of that model with the implementation",
        repo_state=repo_state(),
        statements_pinned=ob.get("statements_compared", 0),
    )
    ev = dict(property_id=prop, tier=tier, seed=seed, level=level, coverage=coverage,
              assumptions=(["soundness of rustc's borrow/region/trait checking", "the global allocator honours layouts"]
                           + (["f64 arithmetic is exact on the dyadic pacing stream used for correspondence (asserted by construction)",
                               "object identity = never-reused id (the harness quarantines released Gc blocks)",
                               "the snapshot hook (cfg gc_arena_verif) reports the collector's fields faithfully"] if cfg else [])
                           + (["the translator's classification rules (lib/eng_*.py docstrings, DESIGN 12.6) and the engines' harnesses",
                               "a probe corpus samples the space of client programs; it does not exhaust it"] if static_res is not None else [])),
              wall_s=round(time.time() - t0, 2), violations=len(violation_lines))
    os.makedirs(os.path.join(ROOT, "evidence"), exist_ok=True)
    with open(os.path.join(ROOT, "evidence", f"{prop}.json"), "w") as f:
        json.dump(ev, f, indent=1, sort_keys=True)
        f.write("\n")
    log(f"[summary] {prop} tier={tier} evaluations={coverage['evaluations']} sequences={agg['sequences']} ops={agg['ops']} distinct_nontrivial={coverage['distinct_nontrivial']} "
        f"diffs={len(diffs)} monitor={len(monitor_viol)} known={len(known_hits)} crashes={len(crashes)} "
        f"obligations_discharged={ob['discharged']}/{ob['obligations']} wall={ev['wall_s']}s")
    for line in list(dict.fromkeys(violation_lines))[:3]:
        print(line, flush=True)
    return 1 if violation_lines else 0


def repo_state():
    """What tree this run looked at: HEAD of /repo plus a hash of the uncommitted diff (the checks
    always rebuild from the working tree, so a run on an edited tree says so in its evidence)."""
    try:
        head = subprocess.run(["git", "-C", REPO, "rev-parse", "HEAD"], stdout=subprocess.PIPE, text=True).stdout.strip()
        diff = subprocess.run(["git", "-C", REPO, "diff", "HEAD"], stdout=subprocess.PIPE).stdout
        untracked = subprocess.run(["git", "-C", REPO, "status", "--porcelain"], stdout=subprocess.PIPE, text=True).stdout.strip()
        return dict(head=head, clean=(not diff and not untracked),
                    working_tree_diff_sha256=(hashlib.sha256(diff).hexdigest() if diff else None))
    except Exception as e:  # not a git checkout: say so, never fail the check for it
        return dict(head=None, clean=None, note=str(e))


def do_replay(prop, path):
    cfg = DYNAMIC.get(prop, dict(mode="sd"))
    okh, outh, exe = build_harness(False)
    okm, outm = build_lean(["gcmodel"])
    if not (okh and okm):
        log("build failed")
        return 2
    ops = [l.rstrip("\n") for l in open(path) if l.startswith("op ")]
    viol, diffs, crashed = replay_ops(exe, cfg["mode"], ops, f"{prop}.replay")
    known, _fixed = known_findings()
    known_keys = {(k["property"], k["key"]) for k in known}
    fresh = []
    for v in viol:
        if v.get("key") and (v["property"], v["key"]) in known_keys:
            desc = next((k["what"] for k in known if (k["property"], k["key"]) == (v["property"], v["key"])), v["what"])
            log(f"KNOWN-FINDING: property={v['property']} {v['key']}: {desc}")
            continue
        fresh.append(v)
        log(f"[monitor] {v['property']} @ {v['op']}: {v['what']}")
    for d in diffs:
        log(f"[model] DIFF section={d['section']} op={d['op']} impl={d['impl']} model={d['model']}")
    if crashed:
        log("[harness] process died while replaying")
    bad = fresh or diffs or crashed
    if bad:
        print(f"VIOLATION property={prop} replay={path}")
        return 1
    log("replay: no monitor fired, model and implementation agree")
    return 0
