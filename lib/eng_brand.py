"""
eng_brand — engine for property C12 (brand isolation): tie T2 (translator + table theorems) and
its cross-validation by an adversarial corpus of rustc compile probes.

    run(prop, tier, seed) -> dict          (contract: see lib/vstatic.py)

What a run does, against /repo's CURRENT working tree:

 1. builds /verif/extract_brand (cargo, offline) and runs it: regenerates
    lean/GcArena/Generated/BrandTable.lean (+ work/brand/table.json);
 2. compiles Model/Brand.lean and the regenerated table with `lean` into work/brand/lean-out
    (NOT into lean/.lake – `lake build` of Props/C12 happens afterwards in ./check) and evaluates
    probes_brand/Predict.lean: what the Lean model computes for every table entry, and for every
    table theorem of Props/C12.lean the entries violating its hypothesis (so that a `decide` that
    is about to fail is explained by naming the entry);
 3. builds the crate as an rlib into work/probe-brand-target (never into /repo/target), generates
    the probe corpus from the table (probes_brand/gen.py) and lets rustc decide each probe
    (probes_brand/run.py, 16 in parallel);
 4. compares: a negative probe that compiles is a violation (`failing_input: True`, the program is
    the replay body; for escapes with an exploit variant the program is also built and run to
    show the dangling use); a positive twin that fails, a prediction / compiler mismatch, or an
    unexpected error class is a correspondence failure (`failing_input: False`).

Environment overrides (used for validating the engine on mutated copies of /repo):
    VERIF_BRAND_REPO      path of the crate (default /repo)
    VERIF_BRAND_LEAN_OUT  where to write BrandTable.lean (default lean/GcArena/Generated/…)
    VERIF_BRAND_LEAN_DIR  Lean project to read Model/Brand.lean, Proofs/, Props/ from (default lean/)
    VERIF_BRAND_ELAB=1    additionally elaborate Proofs/BrandLemmas + Props/C12 against the new
                          table in the scratch dir and report which theorems fail
"""
import hashlib
import json
import os
import shutil
import subprocess
import sys
import time

ROOT = os.path.dirname(os.path.dirname(os.path.abspath(__file__)))
WORK = os.path.join(ROOT, "work")
BW = os.path.join(WORK, "brand")
LEAN = os.environ.get("VERIF_BRAND_LEAN_DIR") or os.path.join(ROOT, "lean")
EXTRACT = os.path.join(ROOT, "extract_brand")
PROBES = os.path.join(ROOT, "probes_brand")
ENV = dict(os.environ, CARGO_NET_OFFLINE="true")



def _load(name, fname):
    """Load probes_brand/<fname> under a unique module name (no sys.path games, no clashes)."""
    import importlib.util
    if name in sys.modules:
        return sys.modules[name]
    spec = importlib.util.spec_from_file_location(name, os.path.join(PROBES, fname))
    mod = importlib.util.module_from_spec(spec)
    sys.modules[name] = mod
    spec.loader.exec_module(mod)
    return mod

MAX_REPLAYS = 8


def _sh(cmd, cwd=None, timeout=1800, env=None):
    p = subprocess.run(cmd, cwd=cwd, env=env or ENV, stdout=subprocess.PIPE, stderr=subprocess.STDOUT, text=True,
                       errors="replace", timeout=timeout)
    return p.returncode, p.stdout


def _problem(name, text, failing, header, lines=(), key=None):
    flat = [part for h in header for part in str(h).splitlines() if part.strip()]
    d = dict(name=name, text=" ".join(str(text).split()), failing_input=bool(failing), header=flat,
             lines=[l for x in lines for l in (str(x).splitlines() or [""])])
    if key:
        d["key"] = key
    return d


def _sha(path):
    return hashlib.sha1(open(path, "rb").read()).hexdigest()


# ------------------------------------------------------------------------------------------
# 1. translator
# ------------------------------------------------------------------------------------------
def build_extractor():
    lock = os.path.join(EXTRACT, "Cargo.lock")
    if not os.path.exists(lock):
        for cand in ("/repo/Cargo.lock", os.path.join(ROOT, "harness", "Cargo.lock")):
            if os.path.exists(cand):
                shutil.copy(cand, lock)
                break
    rc, out = _sh(["cargo", "build", "--offline"], cwd=EXTRACT)
    exe = os.path.join(EXTRACT, "target", "debug", "extract-brand")
    return rc == 0 and os.path.exists(exe), exe, out


def extract(exe, repo, lean_out, json_out):
    os.makedirs(os.path.dirname(json_out), exist_ok=True)
    rc, out = _sh([exe, "--repo", repo, "--lean", lean_out, "--json", json_out])
    return rc == 0, out


# ------------------------------------------------------------------------------------------
# 2. Lean model on the regenerated table
# ------------------------------------------------------------------------------------------
def _lean_compile(src, olean, lean_path, stamp_key=None):
    """lean -o, cached on the hash of the source (and of whatever it depends on: stamp_key)."""
    os.makedirs(os.path.dirname(olean), exist_ok=True)
    stamp = olean + ".stamp"
    h = _sha(src) + (stamp_key or "")
    if os.path.exists(olean) and os.path.exists(stamp) and open(stamp).read() == h:
        return True, ""
    rc, out = _sh(["lean", "-o", olean, src], cwd=os.path.dirname(src), env=dict(ENV, LEAN_PATH=lean_path), timeout=900)
    if rc == 0:
        with open(stamp, "w") as f:
            f.write(h)
    elif os.path.exists(stamp):
        os.remove(stamp)
    return rc == 0, out


def lean_predict(table_lean):
    """Returns (ok, pred dict, log).  pred: adt/callback/collect/transmute/payload lists, viol map."""
    out_dir = os.path.join(BW, "lean-out")
    brand_src = os.path.join(LEAN, "GcArena", "Model", "Brand.lean")
    ok, log = _lean_compile(brand_src, os.path.join(out_dir, "GcArena", "Model", "Brand.olean"), out_dir)
    if not ok:
        return False, None, "Model/Brand.lean does not compile:\n" + log[-2000:]
    ok, log = _lean_compile(table_lean, os.path.join(out_dir, "GcArena", "Generated", "BrandTable.olean"), out_dir,
                            stamp_key=_sha(brand_src))
    if not ok:
        return False, None, "Generated/BrandTable.lean does not compile:\n" + log[-2000:]
    rc, out = _sh(["lean", os.path.join(PROBES, "Predict.lean")], env=dict(ENV, LEAN_PATH=out_dir), timeout=900)
    pred = dict(adt=[], callback=[], collect=[], transmute=[], payload=[], builder=[], viol={}, required={})
    bad = []
    for line in out.splitlines():
        if "\t" not in line:
            if line.strip():
                bad.append(line)
            continue
        k, js = line.split("\t", 1)
        try:
            v = json.loads(js)
        except ValueError:
            bad.append(line)
            continue
        if k == "viol":
            pred["viol"][v["theorem"]] = v["entries"]
        elif k == "required":
            pred["required"] = v
            pred["requiredNotSendSync"] = v["notSendSync"]
        elif k in pred:
            pred[k].append(v)
    if rc != 0 or bad or not pred["viol"]:
        return False, pred, "Predict.lean failed:\n" + "\n".join(bad[:20]) + out[-1500:]
    return True, pred, ""


def elaborate_props(table_lean):
    """Optional: elaborate the lemma and property modules against the new table in the scratch
    dir; returns the list of theorem names whose proof fails (by position of the error)."""
    out_dir = os.path.join(BW, "lean-out")
    lem = os.path.join(LEAN, "GcArena", "Proofs", "BrandLemmas.lean")
    brand_src = os.path.join(LEAN, "GcArena", "Model", "Brand.lean")
    ok, log = _lean_compile(lem, os.path.join(out_dir, "GcArena", "Proofs", "BrandLemmas.olean"), out_dir,
                            stamp_key=_sha(brand_src))
    if not ok:
        return ["<Proofs/BrandLemmas.lean does not compile>"], log
    # Props/C12 also states the escape clause over the brand-flow model (table of eng_tables)
    for rel, key in (("Model/BrandFlow", ""), ("Proofs/BrandFlowLemmas", "Model/BrandFlow"), ("Generated/BrandFlow", "Model/BrandFlow")):
        srcf = os.path.join(LEAN, "GcArena", rel + ".lean")
        if rel.startswith("Generated/") and os.environ.get("VERIF_TABLES_LEAN_OUT"):
            cand = os.path.join(os.environ["VERIF_TABLES_LEAN_OUT"], "BrandFlow.lean")
            srcf = cand if os.path.exists(cand) else srcf
        ok, log = _lean_compile(srcf, os.path.join(out_dir, "GcArena", rel + ".olean"), out_dir,
                                stamp_key=_sha(os.path.join(LEAN, "GcArena", key + ".lean")) if key else None)
        if not ok:
            return [f"<{rel}.lean does not compile>"], log
    src = os.path.join(LEAN, "GcArena", "Props", "C12.lean")
    rc, out = _sh(["lean", src], env=dict(ENV, LEAN_PATH=out_dir), timeout=900)
    if rc == 0:
        return [], out
    lines = open(src).read().splitlines()
    import re
    failed = []
    for m in re.finditer(r"C12\.lean:(\d+):\d+: error", out):
        ln = int(m.group(1))
        name = "<example>"
        for i in range(min(ln, len(lines)) - 1, -1, -1):
            mm = re.match(r"^(theorem|example)\s*([A-Za-z0-9_']*)", lines[i])
            if mm:
                name = mm.group(2) or f"<example at line {i + 1}>"
                break
        if name not in failed:
            failed.append(name)
    return failed, out


# ------------------------------------------------------------------------------------------
# explanations: table entries behind a violated hypothesis
# ------------------------------------------------------------------------------------------
THEOREM_TEXT = {
    "table_classified": "the translator could not classify these items (fail closed)",
    "invariant_alias": "the `Invariant<'a>` marker alias is no longer invariant in its parameter",
    "branded_invariant": "these branded types are no longer invariant in 'gc (or lost their 'gc parameter)",
    "not_send_not_sync": "these types are no longer both !Send and !Sync",
    "no_explicit_auto_impls": "explicit Send / Sync impls exist",
    "builders_invariant_in_value_type": "these types hold a parameter only behind a raw pointer / MaybeUninit, let safe code store a value of it without a Collect / 'static bound, and are not invariant in it (builder rule, defect D4)",
    "callbacks_present": "these callback entry points were not found",
    "callbacks_higher_ranked": "these entry points are no longer `for<'gc>` with `&'gc Mutation<'gc>` and a brand-free result",
    "collect_static_only": "these reference / interior-mutability / Static `Collect` impls lost their 'static bounds",
    "transmutes_guarded": "these re-branding transmutes in dynamic_roots.rs can be reached without the `self.contains(<handle>)` identity check (directly, or through a private unsafe helper whose caller does not check)",
    "write_transparent": "`Write<T>` is no longer a transparent wrapper of `T`",
}


def explain_entries(theorem, entries, table):
    out = []
    adts = {a["name"]: a for a in table.get("adts", [])}
    for e in entries:
        out.append(f"entry: {e}")
        nm = e.split(" ")[0].split(":")[0].split("<")[0] if theorem != "callbacks_higher_ranked" else None
        if nm in adts:
            a = adts[nm]
            out.append(f"  {a['kind']} {a['name']}<{', '.join(['%s%s' % (chr(39), l) for l in a['lts']] + [p['name'] for p in a['tys']])}> ({a['file']})")
            for f in a["fields"]:
                out.append(f"    {f['name']}: {f['rust']}" + (f"   [cfg({f['cfg']})]" if f["cfg"] else ""))
        if theorem == "builders_invariant_in_value_type":
            for m in table.get("methods", []):
                if m["adt"] == nm:
                    out.append(f"    safe method {m['adt']}{' as ' + m['trait'] if m['trait'] else ''}::{m['method']}({', '.join(m['params'])}) on impl for <{', '.join(m['selfArgs'])}>; Collect/'static-bounded: {m['bounded']} ({m['file']})")
        if theorem == "invariant_alias":
            for al in table.get("aliases", []):
                if al["name"] == "Invariant":
                    out.append(f"  type Invariant<{', '.join(chr(39) + l for l in al['lts'])}> = {al['rust']}  ({al['file']})")
        if theorem in ("callbacks_higher_ranked",):
            for cb in table.get("callbacks", []):
                if cb["name"] == e:
                    out.append(f"  {cb['name']} ({cb['file']}): outer lifetimes {cb['outerLts']} outer types {cb['outerTys']}")
                    out.append(f"    {cb['cbParam']}: for<{', '.join(chr(39) + b for b in cb['binder'])}> {cb['fnTrait']}({', '.join(cb['argsRust'])}) -> {cb['retRust']}")
        if theorem == "no_explicit_auto_impls" or theorem == "not_send_not_sync":
            for ai in table.get("autoImpls", []):
                if ai["target"] == nm or theorem == "no_explicit_auto_impls":
                    out.append(f"  {'impl !' if ai['negative'] else 'unsafe impl '}{ai['trait']} for {ai['target']} ({ai['file']})")
        if theorem == "collect_static_only":
            for ci in table.get("collectImpls", []):
                if ci["file"] in e and e.startswith(_head(ci)):
                    out.append(f"  impl Collect for {ci['rust']} ({ci['file']}): params {ci['tys']} selfStatic={ci['selfStatic']}")
        if theorem == "transmutes_guarded":
            for t in table.get("transmutes", []):
                if t["file"] == "dynamic_roots.rs" and e.startswith(t["fn"] + ":") and t["operand"] in e:
                    out.append(f"  {t['fn']}: transmute::<{t['srcRust']}, {t['dstRust']}>({t['operand']})  enclosing ifs: {t['guards']}")
                    for cs in table.get("callSites", []):
                        out.append(f"    call site in {cs['caller']} ({cs['file']}): {cs['calleePath']}({', '.join(cs['args'])})  enclosing ifs: {cs['guards']}"
                                   + ("" if cs["isCall"] else "  [mentioned, not called]"))
    return out


def _head(ci):
    r = ci["rust"]
    if r.startswith("&"):
        return "&"
    return r.split("<")[0]


# ------------------------------------------------------------------------------------------
# main entry
# ------------------------------------------------------------------------------------------
def run(prop, tier, seed, repo=None, lean_out=None):
    gen = _load("brand_probe_gen", "gen.py")
    prun = _load("brand_probe_run", "run.py")
    t0 = time.time()
    repo = repo or os.environ.get("VERIF_BRAND_REPO") or "/repo"
    lean_out = lean_out or os.environ.get("VERIF_BRAND_LEAN_OUT") or os.path.join(LEAN, "GcArena", "Generated", "BrandTable.lean")
    os.makedirs(BW, exist_ok=True)
    problems = []
    timings = {}
    res = dict(problems=problems, evaluations=0, distinct_nontrivial=0, programs=0, disagreements_checked=0,
               rule="negative probe = safe client program the property forbids (escape through an entry point, "
                    "cross-arena use, brand coercion, Send/Sync use) whose positive twin compiles",
               samples=[], summary={})

    # 1 -----------------------------------------------------------------------------------
    ok, exe, log = build_extractor()
    timings["build_extractor_s"] = round(time.time() - t0, 2)
    if not ok:
        problems.append(_problem("extract-build", "the C12 translator /verif/extract_brand does not build", False,
                                 ["cargo build --offline failed in /verif/extract_brand:"] + log[-1500:].splitlines()))
        return res
    table_json = os.path.join(BW, "table.json")
    t1 = time.time()
    ok, log = extract(exe, repo, lean_out, table_json)
    timings["extract_s"] = round(time.time() - t1, 2)
    if not ok:
        problems.append(_problem("extract-run", f"the C12 translator failed on {repo}/src", False, log[-1500:].splitlines()))
        return res
    table = json.load(open(table_json))
    res["programs"] = len(table["adts"]) + len(table["callbacks"]) + len(table["collectImpls"]) + len(table["transmutes"]) + len(table["aliases"])
    res["summary"]["table"] = dict(files=len(table["files"]), adts=len(table["adts"]), aliases=len(table["aliases"]),
                                   callbacks=[c["name"] for c in table["callbacks"]],
                                   collect_impls=len(table["collectImpls"]), transmutes=len(table["transmutes"]),
                                   helper_call_sites=len(table.get("callSites", [])),
                                   auto_impls=len(table["autoImpls"]), unclassified=table["unclassified"],
                                   unexpanded_item_macros=sorted({m[1] for m in table["itemMacros"]}))

    # 2 -----------------------------------------------------------------------------------
    t1 = time.time()
    ok, pred, log = lean_predict(lean_out)
    timings["lean_predict_s"] = round(time.time() - t1, 2)
    if not ok:
        problems.append(_problem("lean-predict", "the Lean brand model could not be evaluated on the regenerated BrandTable", False,
                                 log.splitlines()[-40:]))
        return res
    json.dump(pred, open(os.path.join(BW, "pred.json"), "w"), indent=1)
    res["summary"]["theorem_hypotheses"] = {k: ("ok" if not v else v) for k, v in pred["viol"].items()}
    for th, entries in pred["viol"].items():
        if entries:
            lines = explain_entries(th, list(dict.fromkeys(entries)), table)
            problems.append(_problem(
                f"table-{th}",
                f"table theorem GcArena.C12.{th} no longer checks on the regenerated BrandTable: {THEOREM_TEXT.get(th, '')}: {', '.join(list(dict.fromkeys(entries))[:8])}",
                True,
                [f"property C12: table theorem GcArena.C12.{th} (Props/C12.lean) fails on the table regenerated from {repo}/src",
                 THEOREM_TEXT.get(th, ""), "violating table entries (source facts) follow; re-run ./check C12 to re-extract"],
                lines, key=f"table:{th}"))
    if os.environ.get("VERIF_BRAND_ELAB") == "1":
        t1 = time.time()
        failed, _ = elaborate_props(lean_out)
        timings["lean_elab_s"] = round(time.time() - t1, 2)
        res["summary"]["theorems_failing_elaboration"] = failed

    # 3 -----------------------------------------------------------------------------------
    t1 = time.time()
    ok, rlib, deps, log = prun.build_rlib(repo)
    timings["build_rlib_s"] = round(time.time() - t1, 2)
    if not ok:
        problems.append(_problem("probe-rlib", f"{repo} does not build as an rlib (cargo build --offline); the probe corpus cannot run", False,
                                 log.splitlines()[-40:]))
        res["summary"]["timings"] = timings
        return res
    probes = gen.generate(table, pred, tier)
    t1 = time.time()
    results, pdir = prun.run_probes(probes, rlib, deps, tag=tier)
    timings["probes_s"] = round(time.time() - t1, 2)

    # 4 -----------------------------------------------------------------------------------
    byid = {p["id"]: p for p in probes}
    viol, corr = [], []
    coverage = {}
    outcomes = {}
    for p in probes:
        r = results[p["id"]]
        o = r["outcome"]
        outcomes[o.split("(")[0]] = outcomes.get(o.split("(")[0], 0) + 1
        ck = f"{p['cls']}/{'neg' if p['negative'] else 'pos'}"
        coverage[ck] = coverage.get(ck, 0) + 1
        accepted = o == "accept"
        res["disagreements_checked"] += 1
        twin_ok = True
        if p.get("twin_of"):
            twin_ok = results[p["twin_of"]]["outcome"] == "accept"
        # run-time probes
        if p.get("run") and accepted:
            ex = r.get("exec") or {}
            exp = p["run"]
            text = (ex.get("stdout", "") + ex.get("stderr", ""))
            refused = (ex.get("rc", 0) != 0 and "mismatched root set" in text) or "FETCHED None" in text
            got_ok = (exp["stdout"] in text) and ((ex.get("rc") == 0) == (exp["expect"] == "ok"))
            if p.get("must_refuse") and not refused:
                viol.append((p, r, ["run: rc=%s" % ex.get("rc"), "stdout: " + ex.get("stdout", "").strip(), "stderr: " + ex.get("stderr", "").strip()[:300]]))
            elif not got_ok:
                corr.append((p, r, f"run-time outcome differs from the prediction (expected {exp}, got rc={ex.get('rc')} out={text.strip()[:160]!r})"))
            continue
        if p["negative"] and accepted:
            extra = []
            if p.get("exploit") or p["cls"] in ("escape", "cross-arena", "collect-static", "builder"):
                ex = prun.run_exploit(p, rlib, deps, pdir)
                if ex:
                    extra = ["executed: rc=%s" % ex.get("rc"), "stdout: " + ex.get("stdout", "").strip()[:400], "stderr: " + ex.get("stderr", "").strip()[:400]]
            viol.append((p, r, extra))
            if p["predict"] != "accept":
                corr.append((p, r, f"the Lean model / table predicted reject ({p['why']}) but rustc accepts"))
            continue
        if p["predict"] == "accept" and not accepted:
            if p["twin_of"] is None and not p["negative"]:
                corr.append((p, r, f"positive probe / twin must compile but rustc says {o} {r['messages'][:2]}"))
            else:
                corr.append((p, r, f"the Lean model / table predicted accept ({p['why']}) but rustc says {o} {r['messages'][:2]}"))
        elif p["predict"] == "reject" and accepted:
            corr.append((p, r, f"the Lean model / table predicted reject ({p['why']}) but rustc accepts"))
        elif p["predict"] == "reject":
            cls = o.split(":", 1)[1]
            if cls not in p["allow"]:
                corr.append((p, r, f"rejected for an unexpected reason: {o} {r['messages'][:2]} (expected one of {p['allow']})"))
            elif not twin_ok:
                pass  # reported once, on the twin itself

    negs = {hashlib.sha1(p["src"].encode()).hexdigest() for p in probes if p["negative"]}
    res["evaluations"] = len(probes)
    res["distinct_nontrivial"] = len(negs)

    # group violations so that one weakened fact does not produce hundreds of replays
    seen = {}
    for p, r, extra in viol:
        g = (p["cls"], p.get("entry", ""), p.get("kind", "")) if p["cls"] == "escape" else (p["cls"], "", "")
        seen.setdefault(g, []).append((p, r, extra))
    for g in seen:
        # representative: one whose exploit variant actually ran, if any
        seen[g].sort(key=lambda it: 0 if any("DANGLING" in x for x in it[2]) else 1)
    groups = sorted(seen.items(), key=lambda kv: (kv[0][0] != "escape", kv[0]))
    for gi, (g, items) in enumerate(groups):
        if gi >= MAX_REPLAYS:
            break
        p, r, extra = items[0]
        what = {"escape": f"escape of a branded value ({p.get('payload')}) from {p.get('entry')} via `{p.get('kind')}`",
                "cross-arena": "use of a pointer of one arena inside another arena's callback",
                "variance": "brand coercion (the type is not invariant in its brand)",
                "builder": "value-type coercion of a builder-like type (it holds its parameter behind a raw pointer, stores unchecked values, and is not invariant)",
                "auto": "Send / Sync holds for a type that must not be thread-movable",
                "collect-static": "smuggling a Gc through a root type that is not traced",
                "dynroot": "fetching a DynamicRoot from the wrong DynamicRootSet"}.get(p["cls"], p["cls"])
        header = [f"property C12 violated: {what}",
                  f"probe {p['id']} (class {p['cls']}): a safe client program that must be rejected compiles" if not p.get("run") else
                  f"probe {p['id']} (class {p['cls']}): compiles by design, but must panic / return Err at run time and did not",
                  f"model prediction: {p['predict']} — {p['why']}",
                  f"rustc: {r['outcome']}; {len(items)} probe(s) of this group behave the same: {', '.join(q['id'] for q, _, _ in items[:6])}",
                  f"compile with: rustc --edition 2024 --extern gc_arena=<rlib> -L dependency=<deps> probe.rs   (crate built from {repo})"] + extra
        src = p.get("exploit") if (p.get("exploit") and extra and "did not compile" not in " ".join(extra)) else p["src"]
        verdict = "was not refused at run time" if p.get("run") else "is accepted by rustc"
        problems.append(_problem(f"probe-{p['id']}", f"C12 probe {p['id']}: {what} {verdict}", True, header,
                                 src.splitlines(), key=f"probe:{p['cls']}:{p.get('entry', '')}:{p.get('kind', '')}"))
    if len(groups) > MAX_REPLAYS:
        res["summary"]["violations_not_replayed"] = [f"{g}: {len(it)}" for g, it in groups[MAX_REPLAYS:]]
    for i, (p, r, why) in enumerate(corr[:12]):
        problems.append(_problem(f"probe-corr-{p['id']}", f"C12 probe {p['id']}: {why}", False,
                                 [f"probe {p['id']} (class {p['cls']}, negative={p['negative']})", why], p["src"].splitlines()))
    if len(corr) > 12:
        res["summary"]["correspondence_failures_not_listed"] = [p["id"] for p, _, _ in corr[12:]]

    timings["total_s"] = round(time.time() - t0, 2)
    res["summary"].update(dict(
        probe_coverage=coverage, rustc_outcomes=outcomes, negative_probes=sum(1 for p in probes if p["negative"]),
        positive_twins=sum(1 for p in probes if not p["negative"]), negative_accepted=len(viol),
        correspondence_failures=len(corr), probes_dir=pdir, timings=timings, tier=tier, repo=repo,
        escape_matrix={f"{e}": sorted({p.get('kind') for p in probes if p.get('entry') == e and p['negative']})
                       for e in sorted({p.get('entry') for p in probes if p.get('entry')})},
        model=dict(lt_variance={a["name"]: dict(a["ltVariance"]) for a in pred["adt"] if a["ltVariance"]},
                   not_send_sync={a["name"]: [a["send"], a["sync"]] for a in pred["adt"] if a["name"] in pred.get("requiredNotSendSync", [])})))
    for pid in ("esc_arena_mutate_ret_gc", "cross_nested_stash", "var_gc_gc_shrink"):
        if pid in byid:
            res["samples"].append(dict(id=pid, predict=byid[pid]["predict"], rustc=results[pid]["outcome"],
                                       messages=results[pid]["messages"][:2], program=byid[pid]["src"].splitlines()[-6:]))
    return res


def replay(path, repo=None):
    """Re-run the program stored in a replay file written from one of this engine's problems."""
    prun = _load("brand_probe_run", "run.py")
    repo = repo or os.environ.get("VERIF_BRAND_REPO") or "/repo"
    body = []
    started = False
    for l in open(path):
        if started:
            body.append(l.rstrip("\n"))
        elif l.strip() == "seq replay":
            started = True
    if not any("fn main" in l for l in body):
        print("replay: the file carries table entries, not a program; run ./check C12 to re-extract")
        return 2
    ok, rlib, deps, log = prun.build_rlib(repo)
    if not ok:
        print("replay: crate does not build\n" + log)
        return 2
    p = dict(id="replay", src="\n".join(body) + "\n", run=dict(expect="ok", stdout=""))
    r = prun.run_one(p, rlib, deps, os.path.join(BW, "replay"))
    print(f"rustc: {r['outcome']}")
    for m in r["messages"]:
        print("  " + m)
    if r.get("exec"):
        print(f"run: rc={r['exec']['rc']}\n{r['exec']['stdout']}{r['exec']['stderr']}")
    return 1 if r["outcome"] == "accept" else 0


if __name__ == "__main__":
    tier = sys.argv[1] if len(sys.argv) > 1 else "quick"
    out = run("C12", tier, 1)
    brief = dict(out)
    brief["problems"] = [dict(name=p["name"], text=p["text"], failing_input=p["failing_input"]) for p in out["problems"]]
    print(json.dumps(brief, indent=1)[:20000])
