#!/usr/bin/env python3
"""seed.py <name> <worktree> <property> <needs> <detected_by> — store a confirmed mutant under seeded/."""
import json, os, shutil, sys
name, wt, prop, needs, det = sys.argv[1:6]
d = os.path.join(os.path.dirname(os.path.dirname(os.path.abspath(__file__))), "seeded", name)
os.makedirs(d, exist_ok=True)
for f in ("patch.diff", "demo_mutant.rs", "NOTES.md"):
    src = os.path.join(wt, ".deliver", f)
    if os.path.exists(src):
        shutil.copy(src, os.path.join(d, f))
json.dump(dict(id=name, breaks_property=prop, needs_to_manifest=needs, detected_by=det,
               confirmed=dict(how="sub-agent in a private worktree of /repo: existing suite (39 tests + doc tests) passes with the change; the demonstration fails with it and passes without it; then `git -C /repo apply patch.diff`, ./check <id> --tier quick, `git -C /repo checkout -- .`",
                              checks_on_unchanged_tree="exit 0")), open(os.path.join(d, "meta.json"), "w"), indent=1)
print("stored", d)
