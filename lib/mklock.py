#!/usr/bin/env python3
"""mklock.py — (re)write lib/obligations.lock.json from the theorems currently in lean/GcArena/Props.

Run deliberately after adding or changing property theorems.  The lock pins, per property,
  * the NAMES of the theorems that make up the claim (a locked theorem that disappears is an open
    obligation), and
  * under "_stmt", WHAT each theorem says: a structural hash of its elaborated statement and of every
    GcArena definition the statement transitively rests on (lean/GcArena/Audit/StmtHash.lean; proofs
    and the source-derived Generated tables are excluded).  lib/vcheck.py recomputes the hash on every
    run: a theorem that keeps its name but not its statement (an added hypothesis, a weakened
    conclusion, a redefined `Safe`) no longer discharges the locked obligation.
Every hash that changes for an already locked name is printed and appended to
lib/obligations.lock.changes.log so that a re-acceptance is visible in the history.
"""
import json, os, re, subprocess, sys, time
ROOT = os.path.dirname(os.path.dirname(os.path.abspath(__file__)))
LEAN = os.path.join(ROOT, "lean")
P = os.path.join(LEAN, "GcArena", "Props")
LOCK = os.path.join(ROOT, "lib", "obligations.lock.json")
WORK = os.path.join(ROOT, "work")
os.makedirs(WORK, exist_ok=True)
try:
    old = json.load(open(LOCK))
except Exception:
    old = {}
old_stmt = old.get("_stmt", {})
lock, stmt, mods = {}, {}, []
for f in sorted(os.listdir(P)):
    if not f.endswith(".lean"):
        continue
    mod = f[:-5]
    prop = mod[:3]
    src = open(os.path.join(P, f)).read()
    code = re.sub(r"/-.*?-/", "", src, flags=re.S)
    code = re.sub(r"--.*", "", code)
    ns = re.search(r"^namespace\s+(\S+)", code, flags=re.M)
    prefix = (ns.group(1) + ".") if ns else ""
    names = [prefix + n for n in dict.fromkeys(re.findall(r"^theorem\s+([A-Za-z0-9_.']+)", code, flags=re.M))]
    lock.setdefault(prop, [])
    lock[prop] += names
    mods.append((mod, names))
rb = subprocess.run(["lake", "build", "GcArena.Audit.StmtHash"] + [f"GcArena.Props.{m}" for m, _ in mods],
                    cwd=LEAN, stdout=subprocess.PIPE, stderr=subprocess.STDOUT, text=True)
if rb.returncode != 0:
    print("WARNING: `lake build` of the property modules failed; hashes of modules that do not build keep their accepted value")
bad = []
for mod, names in mods:
    if not names:
        continue
    a = os.path.join(WORK, f"Lock_{mod}.lean")
    open(a, "w").write(f"import GcArena.Audit.StmtHash\nimport GcArena.Props.{mod}\n#stmt_hash " + " ".join(names) + "\n")
    r = subprocess.run(["lake", "env", "lean", a], cwd=LEAN, stdout=subprocess.PIPE, stderr=subprocess.STDOUT, text=True)
    got = dict(re.findall(r"STMT (\S+) (\d+)", r.stdout))
    for n in names:
        if n in got:
            stmt[n] = got[n]
        else:
            bad.append(n)
            if n in old_stmt:            # keep the accepted hash: the module does not build right now
                stmt[n] = old_stmt[n]
changed = [(n, old_stmt[n], stmt[n]) for n in stmt if n in old_stmt and str(old_stmt[n]) != str(stmt[n])]
lock["_stmt"] = stmt
import hashlib
lock["_audit_sha256"] = hashlib.sha256(open(os.path.join(LEAN, "GcArena", "Audit", "StmtHash.lean"), "rb").read()).hexdigest()
old_names = {n for k, v in old.items() if not k.startswith("_") for n in v}
new_names = {n for k, v in lock.items() if not k.startswith("_") for n in v}
removed, added = sorted(old_names - new_names), sorted(new_names - old_names)
json.dump(lock, open(LOCK, "w"), indent=1, sort_keys=True)
print({k: len(v) for k, v in lock.items()})
if bad:
    print(f"WARNING: no statement hash for {len(bad)} theorem(s) (module does not build?): {bad[:8]}")
if changed or removed or added:
    with open(os.path.join(ROOT, "lib", "obligations.lock.changes.log"), "a") as f:
        stamp = time.strftime('%Y-%m-%d %H:%M')
        for n in removed:
            line = f"{stamp} REMOVED from the lock (theorem deleted or renamed): {n}"
            print(line); f.write(line + "\n")
        for n in added:
            line = f"{stamp} added to the lock: {n} (statement hash {stmt.get(n)})"
            print(line); f.write(line + "\n")
        for n, o, w in changed:
            line = f"{stamp} re-accepted {n}: statement hash {o} -> {w}"
            print(line); f.write(line + "\n")
