#!/usr/bin/env python3
"""mklock.py — (re)write lib/obligations.lock.json from the theorems currently in lean/GcArena/Props.
Run deliberately after adding property theorems; the checks treat a locked theorem that disappears
as an open obligation."""
import json, os, re
ROOT = os.path.dirname(os.path.dirname(os.path.abspath(__file__)))
P = os.path.join(ROOT, "lean", "GcArena", "Props")
lock = {}
for f in sorted(os.listdir(P)):
    if not f.endswith(".lean"):
        continue
    mod = f[:-5]
    prop = mod[:3]
    src = open(os.path.join(P, f)).read()
    code = re.sub(r"/-.*?-/", "", src, flags=re.S)
    code = re.sub(r"--.*", "", code)
    ns = re.search(r"^namespace\s+(\S+)", code, flags=re.M)
    prefix = (ns.group(1) + ".") if ns else ""
    names = re.findall(r"^theorem\s+([A-Za-z0-9_.']+)", code, flags=re.M)
    lock.setdefault(prop, [])
    for n in dict.fromkeys(names):
        lock[prop].append(prefix + n)
json.dump(lock, open(os.path.join(ROOT, "lib", "obligations.lock.json"), "w"), indent=1, sort_keys=True)
print({k: len(v) for k, v in lock.items()})
