"""
eng_dynroots — engine of property C14 (DynamicRootSet keeps stashed objects alive exactly while a
handle exists).

Tie T1 of DESIGN §C14: the Rust harness /verif/harness_dynroots drives the REAL gc-arena crate
(path dependency on the repo's working tree, built with `--cfg gc_arena_verif`) with generated
operation sequences over several arenas / root sets / handles with collection increments of every
kind in between, and prints, per operation, the operation in the line protocol of the Lean model
driver `dynmodel` (lean/DynMain.lean over GcArena.Model.DynRoots — the very definitions the
theorems of GcArena.Props.C14 are about) and the observed answer in the driver's canonical format;
slot tables (incl. reference counts and the free-list head) are read through the add-only hook
`DynamicRootSet::verif_slots` / `verif_next_free`.  This module builds both, runs the harness, pipes
the operation lines to the model and compares line by line.

    run(prop, tier, seed) -> dict         (contract: docstring of lib/vstatic.py)
                                          prop = C14: everything;  C20: the same stream, problems that involve a second
                                          arena / foreign handles;  C01: the same stream, only the SURVIVAL monitors (a
                                          value reachable only through a stashed handle destructed / freed / condemned
                                          while the handle exists; fetch returning a destructed object) — the
                                          DynamicRootSet clause of C01; model / implementation differences and the
                                          identity / acceptance / leak monitors are C14's and are ignored there
    replay(prop, path)    -> dict         same, for the script lines of a replay file

A problem is
  * the hook is not in the repo (the harness does not build and the build log says so)
                                    -> ONE problem `dynroots-hook-missing`, failing_input = False;
  * any other build failure of the harness (broken repo) or of the model -> failing_input = False;
  * an implementation-side MONITOR of the harness firing (a stashed object destructed while a live
    handle of a reachable set exists; an object not destructed after the last handle was dropped and
    two finish_cycle calls / after its arena was dropped; fetch returning another object — id,
    address, Gc::ptr_eq —; a foreign handle accepted or an own one refused; any panic except the
    documented fetch mismatch; double free / double destruct; the harness process dying)
                                    -> failing_input = True, the replay carries the shrunk script
                                       (`gcverif-dynroots replay <file>` re-executes it);
  * a disagreement between model and implementation with no monitor firing in that case
                                    -> failing_input = False (replay carries the script as well).

Environment overrides (used to validate the engine against scratch mutants of the repo):
  GCV_REPO             crate under test (default /repo).  If it is not /repo, a copy of the harness
                       crate with the path dependency rewritten is built under /verif/work/.
  GCV_DYNROOTS_HARNESS harness crate directory (default /verif/harness_dynroots)
  GCV_LEAN_DIR         Lean project directory  (default /verif/lean)
  GCV_DYNROOTS_BUDGET  wall-clock seconds for the generated runs (default 10 quick / 150 thorough)
"""
import collections
import hashlib
import os
import re
import shutil
import subprocess
import time

ROOT = os.path.dirname(os.path.dirname(os.path.abspath(__file__)))
HARNESS_SRC = os.environ.get("GCV_DYNROOTS_HARNESS", os.path.join(ROOT, "harness_dynroots"))
LEAN = os.environ.get("GCV_LEAN_DIR", os.path.join(ROOT, "lean"))
REPO = os.path.abspath(os.environ.get("GCV_REPO", "/repo"))
WORK = os.path.join(ROOT, "work")

ENV = dict(os.environ)
ENV["CARGO_NET_OFFLINE"] = "true"
ENV.setdefault("CARGO_TERM_COLOR", "never")

MAX_PROBLEMS = 5
SHRINK_REPLAYS = 160          # replay budget per shrunk problem
CHUNK_QUICK = 400             # cases per harness invocation
CHUNK_THOROUGH = 1500


def _run(cmd, cwd, timeout, stdin=None):
    try:
        p = subprocess.run(cmd, cwd=cwd, env=ENV, stdout=subprocess.PIPE, stderr=subprocess.STDOUT,
                           timeout=timeout, text=True, errors="replace", stdin=stdin)
        return p.returncode, p.stdout
    except subprocess.TimeoutExpired as e:
        return 124, f"timeout after {timeout}s: {e}"
    except OSError as e:
        return 127, repr(e)


def _build_problem(name, what, out):
    tail = [l for l in out.strip().splitlines() if l.strip()][-30:]
    return dict(name=name, text=f"{what} (see replay header for the build log tail)", failing_input=False,
                header=[what] + tail, lines=[])


# --------------------------------------------------------------------------------------------
# building
# --------------------------------------------------------------------------------------------
def harness_dir():
    """The crate to build: the harness itself for /repo, a path-rewritten copy for any other repo."""
    if REPO == "/repo":
        return HARNESS_SRC
    tag = hashlib.sha1(REPO.encode()).hexdigest()[:10]
    dst = os.path.join(WORK, f"dynroots-harness-{tag}")
    os.makedirs(os.path.join(dst, "src"), exist_ok=True)
    os.makedirs(os.path.join(dst, ".cargo"), exist_ok=True)
    toml = open(os.path.join(HARNESS_SRC, "Cargo.toml")).read().replace('path = "/repo"', f'path = "{REPO}"')
    for rel, text in (("Cargo.toml", toml),
                      ("src/main.rs", open(os.path.join(HARNESS_SRC, "src", "main.rs")).read()),
                      (".cargo/config.toml", open(os.path.join(HARNESS_SRC, ".cargo", "config.toml")).read())):
        p = os.path.join(dst, rel)
        if not os.path.exists(p) or open(p).read() != text:
            with open(p, "w") as f:
                f.write(text)
    return dst


def build_harness():
    os.makedirs(WORK, exist_ok=True)
    hdir = harness_dir()
    lock = os.path.join(hdir, "Cargo.lock")
    src = os.path.join(REPO, "Cargo.lock")
    try:
        if os.path.exists(src) and not os.path.exists(lock):
            shutil.copy(src, lock)
    except OSError:
        pass
    t = time.time()
    rc, out = _run(["cargo", "build", "--offline"], hdir, 3000)
    exe = os.path.join(hdir, "target", "debug", "gcverif-dynroots")
    return rc == 0 and os.path.exists(exe), out, exe, round(time.time() - t, 1)


def build_model():
    t = time.time()
    rc, out = _run(["lake", "build", "dynmodel"], LEAN, 3000)
    exe = os.path.join(LEAN, ".lake", "build", "bin", "dynmodel")
    return rc == 0 and os.path.exists(exe), out, exe, round(time.time() - t, 1)


def hook_missing(build_log):
    return bool(re.search(r"no method named `verif_(slots|next_free)`", build_log))


# --------------------------------------------------------------------------------------------
# running
# --------------------------------------------------------------------------------------------
class Case:
    __slots__ = ("idx", "seed", "script", "ops", "answers", "monitors", "cover", "cells", "cfcells", "stats", "ended", "skipped")

    def __init__(self, idx, seed):
        self.idx, self.seed = idx, seed
        self.script, self.ops, self.answers, self.monitors, self.cover, self.skipped = [], [], [], [], [], []
        self.cells = []
        self.cfcells = []
        self.stats = {}
        self.ended = False


def parse_output(text):
    cases, done = [], False
    cur = None
    for line in text.splitlines():
        tag, _, rest = line.partition(" ")
        if tag == "C":
            w = rest.split()
            cur = Case(int(w[0]), w[1] if len(w) > 1 else "0")
            cases.append(cur)
        elif tag == "Z":
            done = True
        elif cur is None:
            continue
        elif tag == "X":
            cur.script.append(rest)
        elif tag == "O":
            cur.ops.append(rest)
        elif tag == "A":
            cur.answers.append(rest)
        elif tag == "M":
            cur.monitors.append(rest)
        elif tag == "V":
            cur.cover.append(rest)
        elif tag == "K":
            cur.cells.append(rest)
        elif tag == "J":
            cur.cfcells.append(rest)
        elif tag == "S":
            cur.skipped.append(rest)
        elif tag == "E":
            cur.ended = True
            for kv in rest.split()[1:]:
                k, _, v = kv.partition("=")
                cur.stats[k] = int(v) if v.isdigit() else v
    return cases, done


def run_gen(exe, seed, first, last, maxops, tag):
    """Run cases [first, last) of the generated stream; restart after a crash of the process."""
    cases, crashes = [], []
    start = first
    for attempt in range(20):
        cmd = [exe, "gen", "--seed", str(seed), "--cases", str(last), "--start", str(start), "--maxops", str(maxops)]
        try:
            p = subprocess.run(cmd, env=ENV, stdout=subprocess.PIPE, stderr=subprocess.PIPE, timeout=1800,
                               text=True, errors="replace")
            rc, out, err = p.returncode, p.stdout, p.stderr[-1500:]
        except subprocess.TimeoutExpired as e:
            rc, out, err = 124, (e.stdout or b"").decode(errors="replace") if isinstance(e.stdout, bytes) else (e.stdout or ""), "timeout"
        cs, done = parse_output(out)
        cases.extend(cs)
        if done and rc == 0:
            break
        # the process died: the last started case is the culprit
        if cs and not cs[-1].ended:
            c = cs[-1]
            c.monitors.append(f"harness-died: the harness process died in this case (exit status {rc}) {err.strip()[-300:]}")
            crashes.append((c.idx, rc))
            start = c.idx + 1
            if start >= last:
                break
        else:
            crashes.append((None, rc))
            break
    return cases, crashes


def run_replay(exe, lines, tag="replay"):
    os.makedirs(WORK, exist_ok=True)
    path = os.path.join(WORK, f"dynroots-{tag}-{os.getpid()}.script")   # concurrent checks (C14 / C20) must not share scratch files
    with open(path, "w") as f:
        f.write("\n".join(lines) + "\n")
    try:
        p = subprocess.run([exe, "replay", path], env=ENV, stdout=subprocess.PIPE, stderr=subprocess.PIPE, timeout=120,
                           text=True, errors="replace")
        rc, out, err = p.returncode, p.stdout, p.stderr[-600:]
    except subprocess.TimeoutExpired:
        rc, out, err = 124, "", "timeout"
    cs, done = parse_output(out)
    c = cs[0] if cs else Case(0, "0")
    if not (done and rc == 0):
        c.monitors.append(f"harness-died: the harness process died in this case (exit status {rc}) {err.strip()[-300:]}")
    return c


def ask_model(exe, cases, tag="run"):
    """One `dynmodel` process for all cases (a `reset` line between them)."""
    inp = os.path.join(WORK, f"dynroots-model-{tag}-{os.getpid()}.in")
    with open(inp, "w") as f:
        for c in cases:
            f.write("reset\n")
            for o in c.ops:
                f.write(o + "\n")
    with open(inp) as f:
        p = subprocess.run([exe], stdin=f, stdout=subprocess.PIPE, stderr=subprocess.PIPE, text=True, timeout=3000)
    ans = p.stdout.splitlines()
    out = []
    k = 0
    ok = p.returncode == 0
    for c in cases:
        if k >= len(ans) or ans[k] != "ok":
            ok = False
        k += 1
        out.append(ans[k:k + len(c.ops)])
        k += len(c.ops)
    if k != len(ans):
        ok = False
    return ok, out, p.stderr[-1000:]


def first_diff(c, model):
    """Index of the first operation whose answers differ (None if none)."""
    n = min(len(c.ops), len(c.answers))
    for i in range(n):
        if i >= len(model) or c.answers[i] != model[i]:
            return i
    if len(c.ops) != len(c.answers) and not c.monitors:
        return n
    return None


_NUM = re.compile(r"\d+(\.\d+)?")


def _sig(text):
    return _NUM.sub("N", text)[:100]


def monitor_kind(m):
    return m.split(":", 1)[0].strip()


# --------------------------------------------------------------------------------------------
# shrinking (delta debugging on the script lines, replaying against the implementation + model)
# --------------------------------------------------------------------------------------------
def shrink(hexe, mexe, script, want, budget=SHRINK_REPLAYS):
    """`want(case, model_answers) -> bool` says whether the problem is still there."""
    used = [0]

    def bad(lines):
        used[0] += 1
        c = run_replay(hexe, lines, tag="shrink")
        ok, model, _ = ask_model(mexe, [c], tag="shrink")
        return want(c, model[0] if model else [])

    cur = list(script)
    if not bad(cur):
        return cur, False, used[0]
    n = 2
    while len(cur) >= 2 and used[0] < budget:
        chunk = max(1, len(cur) // n)
        reduced = False
        i = 0
        while i < len(cur) and used[0] < budget:
            cand = cur[:i] + cur[i + chunk:]
            if cand and bad(cand):
                cur = cand
                n = max(n - 1, 2)
                reduced = True
            else:
                i += chunk
        if not reduced:
            if chunk == 1:
                break
            n = min(n * 2, len(cur))
    return cur, True, used[0]


# --------------------------------------------------------------------------------------------
# analysis
# --------------------------------------------------------------------------------------------
RULE = ("a case is one generated operation sequence (script) run against the real crate and the model; non-trivial when "
        "it stashes >= 2 objects, reuses >= 1 freed slot and crosses >= 1 collection call with a live handle; "
        "counted distinct by the hash of the full script")


def nontrivial(c):
    s = c.stats
    return c.ended and s.get("stash", 0) >= 2 and s.get("reuse", 0) >= 1 and s.get("coll", 0) >= 1


def survival_monitor(m):
    """The monitors that say: a value kept alive only by a stashed handle was destructed / freed / condemned while the
    handle exists (the DynamicRootSet clause of C01) — as opposed to identity, acceptance, leak and table monitors (C14)."""
    k = monitor_kind(m)
    if k in ("premature-destruct", "upgrade-refused", "upgrade-of-destructed", "double-free", "double-destruct"):
        return True
    if k == "fetch-identity":
        return "destructed" in m or "upgradable: false" in m
    return False


def _agg_for(prop):
    return Agg(only=survival_monitor) if prop == "C01" else Agg()


class Agg:
    """Running totals over all cases; only the failing cases (and a few samples) are kept whole."""

    def __init__(self, only=None):
        # `only`: predicate on a monitor text; when given, only cases whose monitor satisfies it count as problems
        # (other monitors and model / implementation differences belong to another property and are ignored)
        self.only = only
        self.ignored = 0
        self.cases = 0
        self.n_ops = 0
        self.n_mon = 0
        self.n_diff = 0
        self.cover = collections.Counter()
        self.cells = collections.Counter()
        self.cfcells = collections.Counter()
        self.distinct = set()
        self.stash = self.reuse = self.coll = 0
        self.groups = collections.OrderedDict()
        self.samples = []

    def add(self, cases, model):
        for c, m in zip(cases, model):
            self.cases += 1
            self.n_ops += len(c.ops)
            self.cover.update(c.cover)
            self.cells.update(c.cells)
            self.cfcells.update(c.cfcells)
            self.stash += c.stats.get("stash", 0)
            self.reuse += c.stats.get("reuse", 0)
            self.coll += c.stats.get("coll", 0)
            if nontrivial(c):
                self.distinct.add(hashlib.sha1("\n".join(c.script).encode()).digest()[:12])
            if self.only is not None and not (c.monitors and self.only(c.monitors[0])):
                if c.monitors or first_diff(c, m) is not None or not c.ended:
                    self.ignored += 1
                continue
            if c.monitors:
                self.n_mon += 1
                sig = "monitor|" + monitor_kind(c.monitors[0])
                g = self.groups.setdefault(sig, dict(kind="monitor", n=0, cases=[]))
            else:
                d = first_diff(c, m)
                if d is None and c.ended:
                    if nontrivial(c) and len(c.script) <= 60 and len(self.samples) < 2:
                        self.samples.append(dict(case=c.idx, script=c.script[:60], stats=c.stats))
                    continue
                self.n_diff += 1
                what = c.ops[d].split()[0] if d is not None and d < len(c.ops) else "truncated"
                sig = "diff|" + what
                g = self.groups.setdefault(sig, dict(kind="diff", n=0, cases=[]))
            g["n"] += 1
            # keep the few shortest failing cases of every group
            g["cases"].append((c, m))
            g["cases"].sort(key=lambda cm: len(cm[0].script))
            del g["cases"][4:]

    def bad(self):
        return self.n_mon + self.n_diff


def analyse(prop, tier, seed, hexe, mexe, agg, crashes, timings, do_shrink=True):
    problems = []
    groups = agg.groups
    cover = agg.cover
    n_cases = agg.cases
    ordered = sorted(groups.items(), key=lambda kv: (kv[1]["kind"] != "monitor", -kv[1]["n"]))
    for k, (sig, g) in enumerate(ordered[:MAX_PROBLEMS]):
        c0, m0 = min(g["cases"], key=lambda cm: len(cm[0].script))
        script = list(c0.script)
        shrunk = False
        replays = 0
        if g["kind"] == "monitor":
            kind = monitor_kind(c0.monitors[0])
            if do_shrink and kind != "harness-died":
                script, shrunk, replays = shrink(hexe, mexe, script, lambda c, m, kind=kind: any(monitor_kind(x) == kind for x in c.monitors))
            elif do_shrink:
                script, shrunk, replays = shrink(hexe, mexe, script, lambda c, m: bool(c.monitors), budget=60)
            c1 = run_replay(hexe, script, tag="final") if shrunk else c0
            mon = (c1.monitors or c0.monitors)[0]
            text = (f"{prop} monitor fired on the implementation: {mon} "
                    f"[{g['n']} of {n_cases} generated case(s) fire a `{kind}` monitor; "
                    f"script of {len(script)} operation(s){', shrunk from ' + str(len(c0.script)) if shrunk else ''}]")
        else:
            d0 = first_diff(c0, m0)
            opname = c0.ops[d0] if d0 is not None and d0 < len(c0.ops) else "(output truncated)"

            def still(c, m, what=sig.split("|", 1)[1]):
                d = first_diff(c, m)
                return (not c.monitors) and d is not None and (d >= len(c.ops) or c.ops[d].split()[0] == what)
            if do_shrink:
                script, shrunk, replays = shrink(hexe, mexe, script, still)
            c1 = run_replay(hexe, script, tag="final") if shrunk else c0
            ok1, m1, _ = ask_model(mexe, [c1], tag="final") if shrunk else (True, [m0], "")
            d1 = first_diff(c1, m1[0])
            if d1 is None:
                c1, m1, d1 = c0, [m0], d0
            opname = c1.ops[d1] if d1 is not None and d1 < len(c1.ops) else opname
            ia = c1.answers[d1] if d1 is not None and d1 < len(c1.answers) else "(none)"
            ma = m1[0][d1] if d1 is not None and d1 < len(m1[0]) else "(none)"
            text = (f"{prop} correspondence: model and implementation disagree on `{opname}`: impl `{ia}` vs model `{ma}` "
                    f"[{g['n']} of {n_cases} generated case(s) disagree first on a `{sig.split('|', 1)[1]}` line, no "
                    f"implementation monitor fired; script of {len(script)} operation(s){', shrunk from ' + str(len(c0.script)) if shrunk else ''}]")
        header = [text,
                  f"harness: {HARNESS_SRC} (gc-arena from {REPO}); tier={tier} seed={seed} case={c0.idx} case_seed={c0.seed} shrink_replays={replays}",
                  "the body is a script for the harness, one operation per line: arena a<N> | newset a<N> s<N> | unlink s<N> | "
                  "stashnew s<N> <payload id> h<N> | stashvia s<N> h<src> h<new> | clone h<N> h<new> | drop h<N> | fetch|tryfetch|contains s<N> h<N> | "
                  "dump s<N> | collect a<N> debt <x>|mark <x>|finmark|cycle <x>|fincycle|step <x> | alloc a<N> <n> <keep> | clearjunk a<N> | droparena a<N> | "
                  "weaknew a<N> <payload id> (object reachable only through a GcWeak in the root) | stashweak s<N> <payload id> h<N> (upgrade that "
                  "weak pointer and stash the result) | weakdrop a<N> <payload id> | park s<N> | unpark s<N> | "
                  "stashleaf s<N> <leaf|static|rc|zst> <payload id> h<N> (stash a fresh LEAF payload, NEEDS_TRACE == false) | "
                  "stashfin s<N> <node|leaf|static|rc|zst> <payload id> h<N> (finish_marking, then allocate + stash inside MarkedArena::finalize) | "
                  "clonefrom h<dst> h<src> (dst.clone_from(&src); for the model: drop dst, then clone src as dst) | end arenas-first|handles-first",
                  f"replay: {hexe} replay <this file>     (M lines = monitors; O/A lines = model op / implementation answer)",
                  f"   or : python3 {os.path.join(ROOT, 'lib', 'eng_dynroots.py')} replay {prop} <this file>"]
        problems.append(dict(name=re.sub(r"[^A-Za-z0-9]+", "-", f"dynroots-{sig}-{k}").strip("-"), text=text,
                             failing_input=(g["kind"] == "monitor"), header=header, lines=script,
                             key=re.sub(r"[^A-Za-z0-9]+", "-", sig).strip("-").lower()))
    if len(ordered) > MAX_PROBLEMS and problems:
        rest = sum(g["n"] for _, g in ordered[MAX_PROBLEMS:])
        problems[-1]["header"].append(f"({len(ordered) - MAX_PROBLEMS} further problem groups with {rest} cases not written out)")
    for idx, rc in crashes:
        if idx is None:
            problems.append(dict(name="dynroots-harness-died", text=f"{prop}: the dynroots harness died outside any case (exit {rc})",
                                 failing_input=False, header=[], lines=[]))
    # coverage table: op kind x set state x collection phase
    table = {}
    for v, n in sorted(cover.items()):
        kind, state, phase = (v.split("|") + ["-", "-"])[:3]
        table.setdefault(kind, {}).setdefault(state, {})[phase] = n
    samples = agg.samples
    # colour cells of the stashes: op | phase | colour of the set object | colour of the stashed object | first stash of
    # the marking | stashed / dead (upgrade failed)
    cells = {}
    for v, n in sorted(agg.cells.items(), key=lambda kv: -kv[1]):
        cells[v] = n
    # clone_from cells: relation of destination and source set x equal / different slot index (x phase, summed out here)
    cf = collections.Counter()
    cf_phase = collections.Counter()
    for v, n in agg.cfcells.items():
        rel, eq, ph = (v.split("|") + ["-", "-"])[:3]
        cf[f"{rel}|{eq}"] += n
        cf_phase[f"{rel}|{eq}|{ph}"] += n
    # leaf payloads (NEEDS_TRACE == false) adopted by a black set while marking (incl. inside finalize), per class
    leaf_cells = collections.Counter()
    for v, n in agg.cells.items():
        w = v.split("|")
        op = w[0]
        if (op.startswith("stash-leaf-") or (op.startswith("stash-fin-") and not op.endswith("-node"))) \
                and w[1] in ("marking", "marked", "finalize") and "set=B" in w and "target=W" in w and w[-1] == "stashed":
            leaf_cells[f"{op.rsplit('-', 1)[1]}|{w[1]}"] += n
    directed = sum(n for v, n in agg.cells.items()
                   if v.startswith("stash-weak|mark") and "|set=B|target=w|first=1|stashed" in v)
    summary = {f"dynroots_{prop}": dict(
        tier=tier, seed=seed, repo=REPO, cases=n_cases,
        monitors_counted=("survival subset (premature-destruct, fetch of a destructed / condemned object, upgrade-refused, "
                          "double free / destruct)" if agg.only is not None else "all"),
        cases_with_problems_of_other_properties_ignored=agg.ignored, model_ops_compared=agg.n_ops, monitor_cases=agg.n_mon,
        disagreeing_cases=agg.n_diff, harness_crashes=len(crashes), nontrivial_distinct=len(agg.distinct),
        stashes=agg.stash, slot_reuses=agg.reuse, collections_with_live_handles=agg.coll,
        coverage_opkind_setstate_phase=table,
        clonefrom_cells=dict(sorted(cf.items())), clonefrom_cells_by_phase=dict(sorted(cf_phase.items())),
        black_set_adopts_white_leaf_while_marking=sum(leaf_cells.values()),
        black_set_adopts_white_leaf_while_marking_by_class_and_phase=dict(sorted(leaf_cells.items())),
        stash_colour_cells=cells, black_set_adopts_white_weak_first_stash_of_marking=directed,
        timings_s=timings)}
    return dict(problems=problems, evaluations=n_cases, distinct_nontrivial=len(agg.distinct), rule=RULE, samples=samples,
                programs=0, disagreements_checked=agg.n_ops, summary=summary)


def _build(prop):
    timings = {}
    okh, outh, hexe, timings["build_harness"] = build_harness()
    if not okh and hook_missing(outh):
        # exactly one problem: nothing else can be judged without the hook
        return [dict(
            name="dynroots-hook-missing",
            text=(f"{prop}: the read-only hook `DynamicRootSet::verif_slots` / `verif_next_free` (#[cfg(gc_arena_verif)], "
                  f"src/dynamic_roots.rs) is not in {REPO}, so the harness cannot read the slot table: the correspondence check did not run"),
            failing_input=False,
            header=[f"apply {os.path.join(WORK, 'dynroots-hook.patch')} to {REPO} (add-only, compiled only with --cfg gc_arena_verif)"]
                   + [l for l in outh.strip().splitlines() if l.strip()][-12:],
            lines=[])], hexe, None, timings
    okm, outm, mexe, timings["build_model"] = build_model()
    problems = []
    if not okh:
        problems.append(_build_problem("dynroots-harness-build", f"{prop}: the dynroots harness does not build against {REPO}'s working tree", outh))
    if not okm:
        problems.append(_build_problem("dynroots-model-build", f"{prop}: `lake build dynmodel` failed in {LEAN}", outm))
    return problems, hexe, mexe, timings


def run(prop, tier, seed):
    tier = "thorough" if tier == "thorough" else "quick"
    seed = int(seed)
    if prop == "C20":
        # C20 (arenas are independent): the same generated stream, but only what involves a
        # second arena or a handle crossing sets / a destroyed arena counts for this property
        res = run("C14", tier, seed)
        keep = []
        for pr in res.get("problems", []):
            n_arenas = len({l.split()[1] for l in pr.get("lines", []) if l.split()[:1] == ["arena"] and len(l.split()) > 1})
            if n_arenas >= 2 or "foreign" in pr.get("name", "") or not pr.get("failing_input", False):
                pr = dict(pr, text=pr.get("text", "").replace("C14", "C20", 1))
                keep.append(pr)
        res["problems"] = keep
        if "summary" in res and "dynroots_C14" in res["summary"]:
            res["summary"] = {"dynroots_C20": res["summary"]["dynroots_C14"]}
        return res
    if prop not in ("C14", "C01"):
        return dict(problems=[dict(name="dynroots-bad-prop", text=f"eng_dynroots does not handle {prop}", failing_input=False, header=[], lines=[])])
    problems, hexe, mexe, timings = _build(prop)
    if problems:
        return dict(problems=problems, evaluations=0, distinct_nontrivial=0, disagreements_checked=0, rule=RULE,
                    summary={f"dynroots_{prop}": dict(timings_s=timings, built=False, repo=REPO)})
    # C01 uses this engine for one clause only (./check C01 also runs the collector harness): a shorter default run
    default_budget = ("60" if tier == "thorough" else "6") if prop == "C01" else ("150" if tier == "thorough" else "10")
    budget = float(os.environ.get("GCV_DYNROOTS_BUDGET", default_budget))
    chunk = CHUNK_THOROUGH if tier == "thorough" else CHUNK_QUICK
    t0 = time.time()
    agg, crashes = _agg_for(prop), []
    th = tm = 0.0
    k = 0
    while True:
        # alternate short and long sequences
        maxops = (60, 160, 320)[k % 3] if tier == "thorough" else (60, 140)[k % 2]
        t = time.time()
        cs, cr = run_gen(hexe, seed * 1000 + k, 0, chunk, maxops, f"{tier}-{k}")
        th += time.time() - t
        t = time.time()
        ok, ms, err = ask_model(mexe, cs, tag=f"{tier}")
        tm += time.time() - t
        if not ok:
            return dict(problems=[dict(name="dynroots-model-protocol",
                                       text=f"{prop}: dynmodel did not answer the harness output line by line: {err[-300:]}",
                                       failing_input=False, header=[], lines=[])],
                        evaluations=agg.cases, distinct_nontrivial=0, disagreements_checked=0, rule=RULE)
        for c in cs:   # case indices restart per chunk; make them unique in reports
            c.idx = f"{seed * 1000 + k}/{c.idx}"
        agg.add(cs, ms)
        crashes += cr
        k += 1
        if time.time() - t0 > budget or agg.bad() > 50 or len(crashes) > 30:
            break
    timings["harness"] = round(th, 1)
    timings["model"] = round(tm, 1)
    t = time.time()
    res = analyse(prop, tier, seed, hexe, mexe, agg, crashes, timings)
    timings["analyse_shrink"] = round(time.time() - t, 1)
    _cleanup()
    return res


def _cleanup():
    """Remove this process's scratch files (the replay carries everything worth keeping)."""
    suffix = f"-{os.getpid()}"
    try:
        for f in os.listdir(WORK):
            if f.startswith("dynroots-") and (f.endswith(suffix + ".in") or f.endswith(suffix + ".script")):
                os.remove(os.path.join(WORK, f))
    except OSError:
        pass


def replay(prop, path):
    """Re-run the script lines of a replay file against the implementation and the model."""
    problems, hexe, mexe, timings = _build(prop)
    if problems:
        return dict(problems=problems, evaluations=0)
    lines = [l.strip() for l in open(path) if l.strip() and not l.lstrip().startswith("#")]
    c = run_replay(hexe, lines, tag="replay")
    ok, model, err = ask_model(mexe, [c], tag="replay")
    agg = _agg_for(prop)
    agg.add([c], model if ok else [[]])
    res = analyse(prop, "replay", 0, hexe, mexe, agg, [], timings, do_shrink=False)
    res["trace"] = [dict(op=o, impl=a, model=(model[0][i] if ok and i < len(model[0]) else None))
                    for i, (o, a) in enumerate(zip(c.ops, c.answers))]
    res["monitors"] = c.monitors
    res["skipped"] = c.skipped
    _cleanup()
    return res


if __name__ == "__main__":
    import json
    import sys
    a = sys.argv[1:]
    if len(a) >= 3 and a[0] == "replay":
        r = replay(a[1], a[2])
    else:
        r = run(a[0] if a else "C14", a[1] if len(a) > 1 else "quick", int(a[2]) if len(a) > 2 else 1)
    print(json.dumps(r, indent=1)[:int(os.environ.get("GCV_PRINT", "9000"))])
    print("problems:", len(r["problems"]))
