#!/usr/bin/env python3
"""mkmuttable.py — regenerate the mutation table of DESIGN.md §12.5 from seeded/*/meta.json."""
import json, os, re
ROOT = os.path.dirname(os.path.dirname(os.path.abspath(__file__)))
rows = []
for n in sorted(os.listdir(os.path.join(ROOT, "seeded"))):
    mp = os.path.join(ROOT, "seeded", n, "meta.json")
    if not os.path.exists(mp):
        continue
    m = json.load(open(mp))
    det = str(m.get("detected_by", "")).replace("|", "/").replace("\n", " ")
    br = str(m.get("breaks_property", "")).replace("|", "/")
    checks = ",".join(m.get("checks") or [n[:3]])
    rows.append(f"| `{n}` | {br[:60]} | {checks} | {det[:330]} |")
table = ("| Seeded change (`seeded/<id>/`) | Breaks | Checks that report it | How it is reported (and what had to be strengthened) |\n"
         "|---|---|---|---|\n" + "\n".join(rows) + "\n")
p = os.path.join(ROOT, "DESIGN.md")
s = open(p).read()
i = s.index("| Seeded change (`seeded/<id>/`) | Breaks |")
j = s.index("\nAll ", i)
s = s[:i] + table + s[j:]
s = re.sub(r"\nAll \d+ seeded changes are reported", f"\nAll {len(rows)} seeded changes are reported", s)
open(p, "w").write(s)
print(len(rows), "rows")
